"""rvsim - deterministic simulation with fault injection for radiant-voices."""
