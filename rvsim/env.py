"""Import the system under test from the working tree and take over the logging seam."""
import logging
import os
import sys

RV_SRC = os.environ.get("RV_SRC", "/repo/src/python")
FIXTURES = os.environ.get("RV_FIXTURES", "/repo/tests/files")

if RV_SRC not in sys.path:
    sys.path.insert(0, RV_SRC)

import rv  # noqa: E402
import rv.api  # noqa: E402
import rv.errors  # noqa: E402

assert os.path.realpath(rv.__file__).startswith(os.path.realpath(RV_SRC)), (
    "rv imported from %s, expected under %s" % (rv.__file__, RV_SRC)
)


class CountingHandler(logging.Handler):
    """List-free log sink: counts message templates (reach probes). Never draws
    from a PRNG, never reads a clock, never formats the record."""

    def __init__(self):
        super().__init__(level=logging.DEBUG)
        self.counts = {}

    def emit(self, record):
        msg = record.msg
        key = getattr(msg, "fmt", None) or (msg if isinstance(msg, str) else type(msg).__name__)
        key = "%s:%s" % (record.levelname, str(key)[:60])
        self.counts[key] = self.counts.get(key, 0) + 1

    def take(self):
        c, self.counts = self.counts, {}
        return c


LOG = CountingHandler()
_rvlog = logging.getLogger("rv")
_rvlog.handlers[:] = [LOG]
_rvlog.propagate = False
_rvlog.setLevel(logging.WARNING)


def raised_in_rv(exc):
    """True iff the exception is the library's reaction rather than a harness bug: walking the
    traceback from the innermost frame outwards, the first frame that belongs either to the
    library under test or to the harness belongs to the library (frames of the standard
    library or of third-party packages called from there do not count)."""
    tb = exc.__traceback__
    frames = []
    while tb is not None:
        frames.append(os.path.realpath(tb.tb_frame.f_code.co_filename))
        tb = tb.tb_next
    rv_root = os.path.realpath(RV_SRC)
    harness_root = os.path.dirname(os.path.realpath(__file__))
    for fn in reversed(frames):
        if fn.startswith(rv_root):
            return True
        if fn.startswith(harness_root):
            return False
    return False
