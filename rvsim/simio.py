"""The simulated disk: streams the simulator owns, with per-call fault plans.

Seams taken over (all from the check process, no repo change):
  * the file object handed to ``read_sunvox_file`` / ``write_to``      -> ``SimFile``
  * ``pathlib.Path.open`` for names on the ``SimDisk``                 -> ``SimFile``
  * the names ``BytesIO`` in ``rv.modules.metamodule`` / ``rv.modules.sampler``
    (nested loads of an embedded project / sampler effect)             -> ``SimFile``

Faults are decided *before* the library call (by the seeded generator or by the
enumerator), stored in the op, and applied by call index within the stream - never by
wall time.  With no active context every seam is a pass-through to the real thing.
"""
import errno
import io
import os
import pathlib

from . import env  # noqa: F401  (imports rv)
import rv.modules.metamodule as _mm
import rv.modules.sampler as _sm

SIM_ROOT = "/simdisk/"


class SimCancel(BaseException):
    """Cancellation / KeyboardInterrupt delivered at a seam call."""


class HarnessTimeout(BaseException):
    """Raised by the per-case watchdog (SIGALRM); never an outcome of the system under test."""


def _on_alarm(signum, frame):
    raise HarnessTimeout("case exceeded the per-case watchdog")


class watchdog:
    """``with watchdog(seconds): ...`` - a case that does not finish is a harness error,
    never a verdict."""

    def __init__(self, seconds=30):
        self.seconds = seconds

    def __enter__(self):
        import signal

        self.prev = signal.signal(signal.SIGALRM, _on_alarm)
        signal.alarm(self.seconds)

    def __exit__(self, *a):
        import signal

        signal.alarm(0)
        signal.signal(signal.SIGALRM, self.prev)
        return False


READ_FAULTS = ("read_eio", "read_nomem", "read_cancel", "read_short")
SEEK_FAULTS = ("seek_err", "seek_cancel")
TELL_FAULTS = ("tell_err", "tell_cancel")
CONTENT_FAULTS = ("trunc", "flip")
STREAM_FAULTS = ("nonseekable",)  # the whole stream behaves like a pipe: seekable() is False, seek/tell raise ESPIPE
OPEN_FAULTS = ("open_enoent", "open_eacces")
CLOSE_FAULTS = ("close_err",)
WRITE_FAULTS = ("write_eio", "write_enospc", "write_cancel", "write_short")

CALL_OF = {}
for _k in READ_FAULTS:
    CALL_OF[_k] = "read"
for _k in SEEK_FAULTS:
    CALL_OF[_k] = "seek"
for _k in TELL_FAULTS:
    CALL_OF[_k] = "tell"
for _k in WRITE_FAULTS:
    CALL_OF[_k] = "write"
CALL_OF["close_err"] = "close"


class Ctx:
    """One library operation under simulation (a load or a save)."""

    def __init__(self, faults=(), profile=False):
        self.streams = []
        self.fired = []  # (kind, stream, call, idx)
        self.profile = profile
        self.calls = []  # (stream, call, arg, pos) when profiling
        self.seam_calls = 0
        self.plan = {}  # (stream, call, idx) -> fault
        self.content = {}  # stream -> [fault]
        self.open_fault = None
        self.in_progress = True
        self.scratch = False  # True: no-argument BytesIO() calls of rv.container / rv.modules.module become rw SimFiles
        self.nonseekable = set()
        for f in faults:
            k = f["kind"]
            if k in STREAM_FAULTS:
                self.nonseekable.add(f.get("stream", 0))
                continue
            if k in CONTENT_FAULTS:
                self.content.setdefault(f.get("stream", 0), []).append(f)
            elif k in OPEN_FAULTS:
                self.open_fault = f
            else:
                self.plan[(f.get("stream", 0), CALL_OF[k], f["at"])] = f

    def new_stream(self, data, origin, mode="r"):
        sid = len(self.streams)
        if mode == "r":
            for f in self.content.get(sid, ()):
                if f["kind"] == "trunc":
                    if f["at"] < len(data):
                        data = data[: f["at"]]
                        self.fired.append(("trunc", sid, "content", f["at"]))
                elif f["kind"] == "flip":
                    if f["at"] < len(data):
                        b = bytearray(data)
                        b[f["at"]] ^= (f.get("xor", 1) & 0xFF) or 1
                        data = bytes(b)
                        self.fired.append(("flip", sid, "content", f["at"]))
        s = SimFile(self, sid, data, origin, mode)
        if sid in self.nonseekable:
            s.pipe = True
        self.streams.append(s)
        return s


CURRENT = None  # the active Ctx, if any


class SimFile:
    def __init__(self, ctx, sid, data, origin, mode="r"):
        self.ctx = ctx
        self.sid = sid
        self.origin = origin  # 'arg' | 'path' | 'nested'
        self.mode = mode
        self.data = data if mode == "r" else None
        self.buf = bytearray() if mode in ("w", "rw") else None
        self.pos = 0
        self.closed = False
        self.close_calls = 0
        self.counts = {"read": 0, "seek": 0, "tell": 0, "write": 0, "close": 0}
        self.capacity = None  # ENOSPC model for writers
        self.pipe = False  # non-seekable stream (FIFO, socket, stdin)

    # -- seam bookkeeping -------------------------------------------------
    def _seam(self, call, arg=None):
        ctx = self.ctx
        idx = self.counts[call]
        self.counts[call] = idx + 1
        ctx.seam_calls += 1
        if ctx.profile:
            ctx.calls.append((self.sid, call, arg, self.pos))
        f = ctx.plan.get((self.sid, call, idx))
        if f is not None:
            ctx.fired.append((f["kind"], self.sid, call, idx))
        return f

    def _check(self):
        if self.closed:
            raise ValueError("I/O operation on closed file")

    # -- reader side ------------------------------------------------------
    def read(self, n=-1):
        self._check()
        f = self._seam("read", n)
        if self.mode == "rw":
            self.data = bytes(self.buf)
        avail = len(self.data) - self.pos
        if n is None or n < 0 or n > avail:
            n = max(avail, 0)
        if f is not None:
            k = f["kind"]
            if k == "read_eio":
                raise OSError(errno.EIO, "simulated read error")
            if k == "read_nomem":
                raise MemoryError("simulated allocation failure")
            if k == "read_cancel":
                raise SimCancel("cancelled at read")
            if k == "read_short" and n > 1:
                n = max(1, n // 2)
        out = self.data[self.pos : self.pos + n]
        self.pos += len(out)
        return out

    def seek(self, pos, whence=0):
        self._check()
        f = self._seam("seek", (pos, whence))
        if self.pipe:
            self.ctx.fired.append(("nonseekable", self.sid, "seek", self.counts["seek"] - 1))
            raise OSError(errno.ESPIPE, "Illegal seek (simulated pipe)")
        if f is not None:
            if f["kind"] == "seek_err":
                raise OSError(errno.ESPIPE, "simulated: illegal seek")
            raise SimCancel("cancelled at seek")
        size = len(self.data) if self.mode == "r" else len(self.buf)
        if whence == 1:
            pos += self.pos
        elif whence == 2:
            pos += size
        if pos < 0:
            raise OSError(errno.EINVAL, "negative seek position")
        self.pos = pos
        return pos

    def tell(self):
        self._check()
        f = self._seam("tell")
        if self.pipe:
            self.ctx.fired.append(("nonseekable", self.sid, "tell", self.counts["tell"] - 1))
            raise OSError(errno.ESPIPE, "Illegal seek (simulated pipe)")
        if f is not None:
            if f["kind"] == "tell_err":
                raise OSError(errno.ESPIPE, "simulated: illegal seek (tell)")
            raise SimCancel("cancelled at tell")
        return self.pos

    # -- writer side ------------------------------------------------------
    def write(self, b):
        self._check()
        f = self._seam("write", len(b))
        if f is not None:
            k = f["kind"]
            if k == "write_eio":
                raise OSError(errno.EIO, "simulated write error")
            if k == "write_enospc":
                raise OSError(errno.ENOSPC, "simulated: no space left on device")
            if k == "write_cancel":
                raise SimCancel("cancelled at write")
            if k == "write_short":
                n = len(b) // 2
                self.buf[self.pos : self.pos + n] = b[:n]
                self.pos += n
                return n
        self.buf[self.pos : self.pos + len(b)] = b
        self.pos += len(b)
        return len(b)

    def getvalue(self):
        return bytes(self.buf if self.mode in ("w", "rw") else self.data)

    def flush(self):
        pass

    # -- lifecycle --------------------------------------------------------
    def close(self):
        self.close_calls += 1
        f = self._seam("close") if not self.closed else None
        self.closed = True
        if f is not None:
            raise OSError(errno.EIO, "simulated close error")

    def __enter__(self):
        return self

    def __exit__(self, *a):
        self.close()

    def readable(self):
        return self.mode == "r"

    def seekable(self):
        return not self.pipe


class SimDisk:
    """name -> durable bytes.  Names live under /simdisk/ so str and Path access agree."""

    def __init__(self):
        self.files = {}

    def put(self, name, data):
        self.files[name] = bytes(data)

    def get(self, name):
        return self.files[name]

    def path(self, name):
        return SIM_ROOT + name


DISK = SimDisk()

_real_path_open = pathlib.Path.open
_real_bytesio = io.BytesIO
import builtins as _builtins

_real_open = _builtins.open
_real_io_open = io.open


def _sim_path_open(self, mode="r", *a, **kw):
    ctx = CURRENT
    s = str(self)
    if ctx is None or not s.startswith(SIM_ROOT):
        return _real_path_open(self, mode, *a, **kw)
    name = s[len(SIM_ROOT) :]
    f = ctx.open_fault
    if f is not None:
        ctx.fired.append((f["kind"], -1, "open", 0))
        if f["kind"] == "open_enoent":
            raise FileNotFoundError(errno.ENOENT, "simulated: no such file", s)
        raise PermissionError(errno.EACCES, "simulated: permission denied", s)
    if name not in DISK.files:
        raise FileNotFoundError(errno.ENOENT, "no such simulated file", s)
    return ctx.new_stream(DISK.files[name], "path")


def _sim_builtin_open(file, mode="r", *a, **kw):
    """builtins.open / io.open for names on the SimDisk (an implementation may open the path
    itself instead of going through pathlib)."""
    ctx = CURRENT
    if ctx is not None and isinstance(file, (str, os.PathLike)):
        s = os.fspath(file)
        if isinstance(s, str) and s.startswith(SIM_ROOT):
            return _sim_path_open(pathlib.PurePosixPath(s), mode)
    return _real_open(file, mode, *a, **kw)


_real_stat = os.stat


def _sim_stat(path, *a, **kw):
    """os.stat (hence Path.stat / exists / is_file / os.path.getsize) for names on the SimDisk."""
    ctx = CURRENT
    if ctx is not None and isinstance(path, (str, os.PathLike)):
        try:
            s = os.fspath(path)
        except TypeError:
            s = None
        if isinstance(s, str) and s.startswith(SIM_ROOT):
            name = s[len(SIM_ROOT) :]
            if name not in DISK.files or (ctx.open_fault is not None and ctx.open_fault["kind"] == "open_enoent"):
                raise FileNotFoundError(errno.ENOENT, "no such simulated file", s)
            import stat as _st

            n = len(DISK.files[name])
            return os.stat_result((_st.S_IFREG | 0o644, 1, 1, 1, 0, 0, n, 0, 0, 0))
    return _real_stat(path, *a, **kw)


def _sim_bytesio(*a, **kw):
    ctx = CURRENT
    if ctx is None or not a or not ctx.in_progress:
        return _real_bytesio(*a, **kw)
    return ctx.new_stream(bytes(a[0]), "nested")


def _sim_scratch_bytesio(*a, **kw):
    """The scratch buffer of Container.clone() / Module.clone(): written, rewound, then
    *loaded from*.  Only the outermost one of an operation is simulated (stream 0)."""
    ctx = CURRENT
    if ctx is None or a or not ctx.in_progress or not ctx.scratch or ctx.streams:
        return _real_bytesio(*a, **kw)
    return ctx.new_stream(b"", "scratch", mode="rw")


class _IoShim:
    """Stands in for the name `io` inside rv.modules.module (which calls io.BytesIO())."""

    def __getattr__(self, name):
        if name == "BytesIO":
            return _sim_scratch_bytesio
        return getattr(io, name)


def _unified_bytesio(*a, **kw):
    return _sim_bytesio(*a, **kw) if a else _sim_scratch_bytesio(*a, **kw)


_patched_names = []


def _discover_seams():
    """Every module of the library that holds a reference to io.BytesIO (under any name) or to
    the io module gets the simulator's factory instead: the seam follows the code if a
    refactoring moves the nested loads elsewhere."""
    import sys

    for modname, mod in list(sys.modules.items()):
        if mod is None or not (modname == "rv" or modname.startswith("rv.")):
            continue
        for name, val in list(vars(mod).items()):
            if val is _real_bytesio:
                setattr(mod, name, _unified_bytesio)
                _patched_names.append((mod, name, val))
            elif val is io and not isinstance(val, _IoShim):
                setattr(mod, name, _IoShimUnified())
                _patched_names.append((mod, name, val))


class _IoShimUnified:
    def __getattr__(self, name):
        if name == "BytesIO":
            return _unified_bytesio
        return getattr(io, name)


def install():
    """Idempotent; pass-through unless a Ctx is active."""
    pathlib.Path.open = _sim_path_open
    _builtins.open = _sim_builtin_open
    io.open = _sim_builtin_open
    os.stat = _sim_stat
    _mm.BytesIO = _sim_bytesio
    _sm.BytesIO = _sim_bytesio
    import rv.container as _ct
    import rv.modules.module as _mod

    _ct.BytesIO = _sim_scratch_bytesio
    _mod.io = _IoShim()
    _discover_seams()


def uninstall():
    pathlib.Path.open = _real_path_open
    _builtins.open = _real_open
    io.open = _real_io_open
    os.stat = _real_stat
    _mm.BytesIO = _real_bytesio
    _sm.BytesIO = _real_bytesio
    import rv.container as _ct
    import rv.modules.module as _mod

    _ct.BytesIO = _real_bytesio
    _mod.io = io
    while _patched_names:
        mod, name, val = _patched_names.pop()
        setattr(mod, name, val)


class active:
    """``with active(ctx): ...`` - the seams consult ``ctx`` for the duration."""

    def __init__(self, ctx):
        self.ctx = ctx

    def __enter__(self):
        global CURRENT
        self.prev = CURRENT
        CURRENT = self.ctx
        return self.ctx

    def __exit__(self, *a):
        global CURRENT
        self.ctx.in_progress = False
        CURRENT = self.prev
        return False


STUBS = [
    "SimDisk",
    "SimFile (file_or_name / write_to argument)",
    "pathlib.Path.open, builtins.open, io.open, os.stat (names under /simdisk/)",
    "BytesIO@rv.modules.metamodule",
    "BytesIO@rv.modules.sampler",
    "BytesIO@rv.container and io.BytesIO@rv.modules.module (scratch buffer of clone(), only when a Ctx asks for it)",
    "logging handler on logger 'rv'",
]
