"""C08 - the connection graph and slot order persist across save/load.

Same op alphabet as C07 on one project, plus `save; restart; load` at seeded points
(the actor keeps linking on the loaded project) and the foreign-file variant in which
the optional slot chunk (SLnK) is absent from every module.
"""
from .. import builder, chunkio, env, seeds, simio, noise  # noqa: F401
from ..runner import Acc
from ..simio import Ctx, HarnessTimeout, active
from . import c07

from rv.readers.reader import read_sunvox_file

PROPERTY = "C08"
LEVEL = "exploration"
BUDGET_S = {"quick": 60, "thorough": 3600}
RULE = (
    "one evaluation = one seeded history of connect/disconnect requests (C07 alphabet, incl. freed slots in the middle, "
    "cycles, self loops, fan-in/out, output links) with 1-4 save -> restart -> load boundaries; at each restart the four "
    "link tables of every module (trailing freed slots stripped) and the edge set are compared before/after and the "
    "loaded tables are checked for mutual consistency; in slot-less mode every SLnK chunk is removed from the saved "
    "bytes first (then graph, in-link order and consistency are demanded, not slot numbers). non-trivial = a restart "
    "happened with >= 1 edge; distinct = distinct op lists. 14% of the histories build their graphs inside the project "
    "embedded in a MetaModule (and around it in the host); every oracle is then applied to the host and, recursively, to "
    "every embedded project"
)
STATE_MEASURE = "hash of all link tables at each restart"
COMPONENTS = {"real": ["Project.connect", "Project.chunks (SLNK/SLnK writer)", "ModuleReader.process_SLNK/SLnK", "SunVoxReader.process_end_of_file (slot/out-link rebuild)"], "stub": ["SimFile", "chunk stream rewriter (SLnK removal)"]}
ASSUMPTIONS = [
    "slot-less files are those in which NO module carries SLnK (what a producer that never emits the optional chunk writes); removing it from an arbitrary subset yields files no writer produces and whose slot assignment is ambiguous",
    "partial presence of SLnK is explored as the library's own writer produces it (elided exactly where all slots are 0/-1)",
]


def strip(l):
    l = list(l)
    while l and l[-1] == -1:
        l.pop()
    return l


def tables(project):
    return {m.index: (strip(m.in_links), strip(m.in_link_slots), strip(m.out_links), strip(m.out_link_slots)) for m in project.modules if m is not None}


def projects_of(project, path=(), depth=0):
    """The project and, recursively, the projects embedded in its MetaModules: (path, project)."""
    yield path, project
    if depth >= 3:
        return
    for m in project.modules:
        if m is not None and type(m).__name__ == "MetaModule" and getattr(m, "project", None) is not None:
            yield from projects_of(m.project, path + (m.index,), depth + 1)


def _v(oracle, **kw):
    d = {"property": PROPERTY, "oracle": oracle}
    d["detail"] = kw.pop("detail", {})
    d.update(kw)
    return d


def _foreign():
    from rv.project import Project

    f = Project()
    f.new_module(builder.SIMPLE_TYPES[3])
    f.new_module(builder.SIMPLE_TYPES[9])
    return f


def execute(case):
    s = builder.Session()
    s.foreign = _foreign()
    violations = []
    probes = {}
    states = []
    log = []
    nontrivial = False
    _box = {"s": s, "nontrivial": False}

    def step(i, op):
        s = _box["s"]
        nontrivial = _box["nontrivial"]
        k = op["k"]
        if k == "save_load":
            p = s.project
            before_all = {path: (tables(q), sorted(c07.edges_of(q))) for path, q in projects_of(p)}
            before, edges_before = before_all[()]
            if any(e for path, (_, e) in before_all.items() if path):
                probes["restart_with_edges_in_an_embedded_project"] = probes.get("restart_with_edges_in_an_embedded_project", 0) + 1
            mode = "slotless" if op.get("slotless") else "slots"
            data = p.read()
            chunks = chunkio.split(data)
            n_slnk = sum(1 for _, n, _ in chunks if n == b"SLnK")
            n_mods_with_links = sum(1 for _, n, pl in chunks if n == b"SLNK" and pl)
            if 0 < n_slnk < n_mods_with_links:
                probes["SLnK_elided_for_some_present_for_others"] = probes.get("SLnK_elided_for_some_present_for_others", 0) + 1
            if any(-1 in t[0] for t in before.values()):
                probes["restart_with_freed_slot_in_the_middle"] = probes.get("restart_with_freed_slot_in_the_middle", 0) + 1
            if mode == "slotless":
                data = chunkio.join([(n, pl) for _, n, pl in chunks if n != b"SLnK"])
                probes["slotless_restart"] = probes.get("slotless_restart", 0) + 1
            ctx = Ctx(())
            loaded = None
            with active(ctx):
                try:
                    loaded = read_sunvox_file(ctx.new_stream(data, "arg"))
                except (KeyboardInterrupt, HarnessTimeout):
                    raise
                except BaseException as e:
                    violations.append(_v("reload_raises", mode=mode, exc=type(e).__name__, detail={"op": i, "msg": str(e)[:200]}))
            env.LOG.take()
            if loaded is not None:
                after_all = {path: (q, tables(q), sorted(c07.edges_of(q))) for path, q in projects_of(loaded)}
                names = ("in_links", "in_link_slots", "out_links", "out_link_slots")
                which = (0, 1, 2, 3) if mode == "slots" else (0,)
                for path in sorted(before_all):
                    where = "embedded" if path else "top"
                    b_tables, b_edges = before_all[path]
                    if path not in after_all:
                        violations.append(_v("embedded_project_missing", mode=mode, detail={"op": i, "path": list(path)}))
                        continue
                    q, a_tables, a_edges = after_all[path]
                    if a_edges != b_edges:
                        violations.append(_v("graph_preserved", mode=mode, where=where, detail={"op": i, "path": list(path), "before": b_edges[:8], "after": a_edges[:8]}))
                    for idx in sorted(b_tables):
                        a, b = b_tables[idx], a_tables.get(idx)
                        if b is None:
                            violations.append(_v("module_missing", mode=mode, where=where, detail={"op": i, "path": list(path), "module": idx}))
                            continue
                        for w in which:
                            if a[w] != b[w]:
                                violations.append(_v("tables_preserved", mode=mode, where=where, table=names[w], detail={"op": i, "path": list(path), "module": idx, "before": a[w], "after": b[w]}))
                                break
                    errs = c07.consistency_errors(q)
                    if errs:
                        violations.append(_v("loaded_mutual_consistency", mode=mode, where=where, what=errs[0][0], detail={"op": i, "path": list(path), "errs": errs[:4]}))
                if any(e for _, e in before_all.values()):
                    nontrivial = True
                foreign = s.foreign
                s = builder.Session(loaded)
                s.foreign = foreign
            st = seeds.h64(sorted(before.items()))
            states.append(st)
            log.append((i, "save_load", mode, loaded is not None, st))
        elif k == "save":
            # an intermediate save without restart (the same object is saved again later)
            d_ = s.project.read()
            log.append((i, "save", seeds.digest(d_)))
        else:
            out = s.apply(op)
            if out.startswith("refused"):
                probes["refused_foreign_operand"] = probes.get("refused_foreign_operand", 0) + 1
            log.append((i, out))
        _box["s"] = s
        _box["nontrivial"] = nontrivial

    for i, op in enumerate(case["ops"]):
        try:
            step(i, op)
        except (KeyboardInterrupt, HarnessTimeout):
            raise
        except Exception as e:
            if not env.raised_in_rv(e):
                raise  # a harness bug is never a verdict
            violations.append(_v("unexpected_exception", after=op["k"], exc=type(e).__name__, detail={"op": i, "msg": str(e)[:120]}))
            log.append((i, op["k"], "error", type(e).__name__))
    nontrivial = _box["nontrivial"]
    return {
        "violations": violations,
        "fired": {"restart": sum(1 for x in log if x[1] == "save_load")},
        "probes": probes,
        "nontrivial": [seeds.h64(case["ops"])] if nontrivial else [],
        "states": states,
        "digest": seeds.digest(log),
        "outcome": log[-2:],
        "steps": len(case["ops"]),
    }


def generate_hub(r):
    """A hub that toggles links to a few destinations many times: out-slot numbers grow past
    16 (MultiCtl's mapping rows) and past 255 because freed slots are never reused."""
    ops = []
    hub_type = r.choice(["MultiCtl", "MultiCtl", None])
    if hub_type:
        ops.append({"k": "mod", "t": builder.TYPE_NAMES.index(hub_type)})
    slotless = r.random() < 0.2
    for _ in range(r.randint(1, 3)):
        ops.append({"k": "hubscn", "hub": 1 if hub_type else r.randrange(100), "fan": r.choice([1, 2, 3, 6, 18]), "t": r.randrange(1000),
                    "n": r.choice([30, 60, 300, 700]), "v": r.getrandbits(62)})
        for _ in range(r.randint(0, 4)):
            ops.append(builder.gen_link_op(r))
        ops.append({"k": "save_load", "slotless": slotless})
    noise.sprinkle(r, ops)
    return {"property": PROPERTY, "world": "links+restart", "ops": ops}


def generate_embedded(r):
    """Link graphs inside the project embedded in a MetaModule (and in the host around it): the
    embedded project is written and read by a nested writer / reader inside the host's own."""
    mm = builder.TYPE_NAMES.index("MetaModule")
    ops = [{"k": "mod", "t": r.randrange(1000), "any": False} for _ in range(r.randint(0, 3))]
    ops.append({"k": "mod", "t": mm})
    if r.random() < 0.3:
        ops.append({"k": "mod", "t": mm})
    ops += [{"k": "mod", "t": r.randrange(1000), "any": False} for _ in range(r.randint(0, 3))]
    for _ in range(r.randint(2, 6)):
        ops.append({"k": "embed", "m": r.randrange(100), "op": {"k": "mod", "t": r.randrange(1000), "any": False}})
    slotless_run = r.random() < 0.2
    for _ in range(r.randint(1, 4)):
        for _ in range(r.randint(1, 12)):
            x = r.random()
            if x < 0.5:
                ops.append({"k": "embed", "m": r.randrange(100), "op": builder.gen_link_op(r)})
            elif x < 0.55:
                ops.append({"k": "embed", "m": r.randrange(100), "op": {"k": "hubscn", "hub": r.randrange(100), "fan": r.choice([1, 2, 3, 6]), "t": r.randrange(1000), "n": r.choice([5, 20, 40]), "v": r.getrandbits(62)}})
            elif x < 0.62:
                ops.append({"k": "embed", "m": r.randrange(100), "op": {"k": "mod", "t": r.randrange(1000), "any": False}})
            elif x < 0.74:
                ops.append({"k": "save"})
            elif x < 0.80:
                ops.append(builder.gen_op(r, {"bad": 1}) if r.random() < 0.5 else {"k": "embed", "m": r.randrange(100), "op": builder.gen_op(r, {"bad": 1})})
            else:
                ops.append(builder.gen_link_op(r))
        ops.append({"k": "save_load", "slotless": slotless_run and r.random() < 0.7})
    noise.sprinkle(r, ops)
    return {"property": PROPERTY, "world": "links+restart", "ops": ops}


def generate(seed, i, tier="quick"):
    r = seeds.rng(seed, "c08hist", i)
    u = r.random()
    if u < 0.06:
        return generate_hub(r)
    if u < 0.2:
        return generate_embedded(r)
    ops = [{"k": "mod", "t": r.randrange(1000), "any": False} for _ in range(r.randint(1, 7))]
    slotless_run = r.random() < 0.3
    fp = r.choice([0.0, 0.0, 0.1, 0.25])
    for _ in range(r.randint(1, 4)):
        for _ in range(r.randint(1, 14)):
            x = r.random()
            if x < 0.08:
                ops.append({"k": "mod", "t": r.randrange(1000), "any": False})
            elif x < 0.16:
                ops.append({"k": "save"})
            elif x < 0.22:
                ops.append(builder.gen_op(r, {"bad": 1}))
            else:
                ops.append(builder.gen_link_op(r, foreign_p=fp))
        ops.append({"k": "save_load", "slotless": slotless_run and r.random() < 0.7})
    noise.sprinkle(r, ops)
    return {"property": PROPERTY, "world": "links+restart", "ops": ops}


def plan(tier, seed):
    n = 16000 if tier == "quick" else 300000
    per = 400
    return [{"kind": "seeded", "seed": seed, "first": i, "count": min(per, n - i), "tier": tier} for i in range(0, n, per)]


def run_unit(unit):
    acc = Acc()
    for i in range(unit["first"], unit["first"] + unit["count"]):
        acc.run(execute, generate(unit["seed"], i, unit.get("tier", "quick")))
    return acc.to_dict()


shrink_candidates = c07.shrink_candidates
