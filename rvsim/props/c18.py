"""C18 - loading restores the global strictness flag and releases files on every exit path.

World `loader`: loads of files on the SimDisk through all three access modes, under a
fault plan applied by seam-call index; both initial flag values; nested loads.
Level: fault_enumeration (complete sweep of the call-index / chunk-boundary / byte
truncation space for the fixtures) + seeded multi-op histories on top.
"""
import pathlib

from .. import chunkio, env, files, seeds, simio
from ..runner import Acc
from ..simio import Ctx, HarnessTimeout, SimCancel, active

import rv.errors
import rv.modules
from rv.readers.reader import read_sunvox_file

PROPERTY = "C18"
LEVEL = "fault_enumeration"
BUDGET_S = {"quick": 60, "thorough": 3600}
EXHAUSTIVE = {"quick": False, "thorough": False}  # set per run in evidence via probes; see RULE
RULE = (
    "one evaluation = one history of 1-12 ops (loads under a fault plan, strictness probes); the sweep part "
    "enumerates, per file x initial flag value x access mode, a fault at EVERY read/seek/tell call index of "
    "every stream (top-level and nested), truncation at every chunk boundary and byte offset (every byte for "
    "streams < 3000 B, every 7th above), open/close faults for path loads; the seeded part samples multi-load "
    "histories and byte flips. non-trivial = an injected fault actually fired while the load was in progress "
    "(or, for fault-free loads, the load ran to completion); distinct = distinct "
    "(file, access mode, flag0, fault kind, stream, call index/offset) tuples"
)
STATE_MEASURE = "distinct (file, exit type of the load: returned object type or exception type, fault kind, stream class)"
COMPONENTS = {
    "real": ["rv.* (readers, vendored chunk, all module classes, errors) from the working tree"],
    "stub": simio.STUBS,
}
ASSUMPTIONS = [
    "faults are delivered only at seam calls (read/seek/tell/open/close) and as stored-byte changes, not at arbitrary bytecode boundaries",
    "single thread: concurrent loads from several threads are outside the property's quantifier",
    "for file-object loads nothing is required of the caller's handle",
]

PROBE_TYPES = ("Amplifier", "Filter", "Distortion", "Echo", "Lfo", "Reverb")


# ---------------------------------------------------------------------------
# executing a case


def _probe_strict(sel):
    """True iff an out-of-range assignment to a plain Range controller is rejected."""
    from rv.controller import Range

    cls = getattr(rv.modules, PROBE_TYPES[sel % len(PROBE_TYPES)])
    mod = cls()
    for name, ctl in mod.controllers.items():
        t = ctl.value_type
        if type(t) is Range:
            try:
                setattr(mod, name, t.max + 1)
            except rv.errors.ControllerValueError:
                return True
            return False
    raise RuntimeError("no plain Range controller on %s" % cls.__name__)


def _do_load(op, profile=False):
    spec = op["file"]
    data = files.materialize(spec)
    how = op.get("how", "file")
    name = "f"
    simio.DISK.put(name, data)
    ctx = Ctx(op.get("faults", ()), profile=profile)
    flag0 = bool(op.get("flag0", True))
    rv.errors.RAISE_CONTROLLER_VALUE_ERRORS = flag0
    obj = None
    # configuration knob: the library's "raise range errors on read" switch (a load in
    # strict mode leaves by ControllerValueError when a stored value is out of range)
    import rv.readers.reader as _rr

    saved_knob = _rr.RAISE_RANGE_ERRORS_ON_READ
    _rr.RAISE_RANGE_ERRORS_ON_READ = bool(op.get("strict_read", False))
    # configuration knob: the application's log level (DEBUG makes the library's debug paths run)
    import logging

    rvlog = logging.getLogger("rv")
    saved_level = rvlog.level
    if op.get("debug_log"):
        rvlog.setLevel(logging.DEBUG)
    try:
        cm = op.get("ctxmgr")
        if cm is None:
            return _do_load_inner(op, ctx, data, how, name, flag0)
        # the application wraps the load in the library's own public context manager, entered from
        # the opposite setting: what "before the call" means is then the value the manager installed
        rv.errors.RAISE_CONTROLLER_VALUE_ERRORS = not bool(cm)
        with rv.errors.override_raise_controller_value_errors(bool(cm)):
            if op.get("assign_inside") is not None:
                # inside the block the application assigns the setting directly; what the load has to
                # restore is the value in force when the load was called
                rv.errors.RAISE_CONTROLLER_VALUE_ERRORS = bool(op["assign_inside"])
            inner_before = rv.errors.RAISE_CONTROLLER_VALUE_ERRORS
            res = _do_load_inner(op, ctx, data, how, name, inner_before, set_flag=False)
        outer_after = rv.errors.RAISE_CONTROLLER_VALUE_ERRORS
        ctx_, _, after, exit_, obj = res
        if outer_after is not (not bool(cm)) and op.get("assign_inside") is None:
            after = ("outer:%r" % outer_after)  # reported as a flag_restored violation by the caller
        return ctx_, inner_before, after, exit_, obj
    finally:
        _rr.RAISE_RANGE_ERRORS_ON_READ = saved_knob
        rvlog.setLevel(saved_level)


def _do_load_inner(op, ctx, data, how, name, flag0, set_flag=True):
    obj = None
    src = None
    if how in ("clone", "clone_module"):
        # the load under test is the one *inside* clone(): first obtain the object fault-free
        try:
            pre = Ctx(())
            with active(pre):
                src = read_sunvox_file(pre.new_stream(data, "arg"))
        except (KeyboardInterrupt, HarnessTimeout):
            raise
        except BaseException:
            src = None
        env.LOG.take()
        if set_flag:
            rv.errors.RAISE_CONTROLLER_VALUE_ERRORS = flag0
        if src is None or (how == "clone_module" and type(src).__name__ != "Synth"):
            how = "file"
        else:
            ctx.scratch = True
    with active(ctx):
        try:
            if how == "clone":
                obj = src.clone()
                exit_ = "return:" + type(obj).__name__
                return ctx, flag0, rv.errors.RAISE_CONTROLLER_VALUE_ERRORS, exit_, obj
            if how == "clone_module":
                obj = src.module.clone()
                exit_ = "return:" + type(obj).__name__
                return ctx, flag0, rv.errors.RAISE_CONTROLLER_VALUE_ERRORS, exit_, obj
            if how == "file":
                arg = ctx.new_stream(data, "arg")
            elif how == "str":
                arg = simio.DISK.path(name)
            else:
                arg = pathlib.Path(simio.DISK.path(name))
            obj = read_sunvox_file(arg)
            exit_ = "return:" + type(obj).__name__
        except (KeyboardInterrupt, HarnessTimeout):
            raise
        except BaseException as e:  # injected faults and the parser's own reactions
            exit_ = "raise:" + type(e).__name__
    after = rv.errors.RAISE_CONTROLLER_VALUE_ERRORS
    return ctx, flag0, after, exit_, obj


def execute(case):
    simio.install()
    violations = []
    fired = {}
    probes = {}
    nontrivial = []
    states = []
    log = []
    model_flag = True
    saved_flag = rv.errors.RAISE_CONTROLLER_VALUE_ERRORS
    try:
        for i, op in enumerate(case["ops"]):
            k = op["k"]
            if k == "load":
                ctx, flag0, after, exit_, obj = _do_load(op)
                model_flag = flag0
                how = op.get("how", "file")
                faults = op.get("faults", ())
                fkind = "+".join(f["kind"] for f in faults) or "none"
                label = files.spec_label(op["file"])
                for (fk, sid, call, idx) in ctx.fired:
                    fired[fk] = fired.get(fk, 0) + 1
                    sclass = "top" if sid <= 0 else "nested"
                    nontrivial.append(seeds.h64(label, how, flag0, fk, sid, call, idx))
                    if sid > 0:
                        probes["fault_in_nested_stream"] = probes.get("fault_in_nested_stream", 0) + 1
                    if sid == 0 and call == "read" and idx == 0:
                        probes["fault_on_first_read"] = probes.get("fault_on_first_read", 0) + 1
                if not faults and exit_.startswith("return"):
                    nontrivial.append(seeds.h64(label, how, flag0, "none"))
                if len(ctx.streams) > 1:
                    probes["load_with_nested_stream"] = probes.get("load_with_nested_stream", 0) + 1
                if exit_ in ("raise:SimCancel", "raise:MemoryError"):
                    probes["load_raised_non_Exception_or_MemoryError"] = probes.get("load_raised_non_Exception_or_MemoryError", 0) + 1
                if exit_ == "raise:ControllerValueError":
                    probes["strict_read_load_left_by_ControllerValueError"] = probes.get("strict_read_load_left_by_ControllerValueError", 0) + 1
                if sum(1 for st_ in ctx.streams if st_.origin == "nested") >= 2:
                    probes["load_with_two_or_more_nested_streams"] = probes.get("load_with_two_or_more_nested_streams", 0) + 1
                if len(ctx.fired) >= 2:
                    probes["two_faults_fired_in_one_load"] = probes.get("two_faults_fired_in_one_load", 0) + 1
                if exit_ == "return:NoneType":
                    probes["load_returned_None"] = probes.get("load_returned_None", 0) + 1
                for key, n in env.LOG.take().items():
                    if "is not within" in key:
                        probes["lenient_out_of_range_warning"] = probes.get("lenient_out_of_range_warning", 0) + n
                sclass = "nested" if any(s > 0 for _, s, _, _ in ctx.fired) else "top"
                states.append(seeds.h64(label, exit_, fkind, sclass))
                exit_class = exit_.split(":")[0]
                if after is not flag0:
                    violations.append(
                        {
                            "property": PROPERTY,
                            "oracle": "flag_restored",
                            "exit": exit_class,
                            "detail": {"op": i, "flag0": flag0, "after": repr(after), "exit": exit_, "fault": fkind, "how": how, "file": label},
                        }
                    )
                for s in ctx.streams:
                    if s.origin == "path" and s.close_calls == 0:
                        violations.append(
                            {
                                "property": PROPERTY,
                                "oracle": "file_closed",
                                "exit": exit_class,
                                "detail": {"op": i, "exit": exit_, "fault": fkind, "how": how, "file": label},
                            }
                        )
                log.append((i, "load", label, how, flag0, fkind, exit_, repr(after), [tuple(x) for x in ctx.fired]))
                # later ops are judged on their own: put the setting back where the caller left it
                rv.errors.RAISE_CONTROLLER_VALUE_ERRORS = flag0
            elif k == "set_flag":
                model_flag = bool(op["v"])
                rv.errors.RAISE_CONTROLLER_VALUE_ERRORS = model_flag
                log.append((i, "set_flag", model_flag))
            elif k == "probe":
                strict = _probe_strict(op.get("sel", 0))
                env.LOG.take()
                if strict is not model_flag:
                    violations.append(
                        {
                            "property": PROPERTY,
                            "oracle": "later_api_use_strictness",
                            "exit": "probe",
                            "detail": {"op": i, "expected_strict": model_flag, "observed_strict": strict},
                        }
                    )
                log.append((i, "probe", strict))
            else:
                raise ValueError("unknown op %r" % (op,))
    finally:
        rv.errors.RAISE_CONTROLLER_VALUE_ERRORS = saved_flag
    return {
        "violations": violations,
        "fired": fired,
        "probes": probes,
        "nontrivial": [seeds.h64(nontrivial)] if nontrivial else [],
        "states": states,
        "digest": seeds.digest(log),
        "outcome": log[-3:],
        "steps": len(case["ops"]),
    }


# ---------------------------------------------------------------------------
# the fault space of one file


def profile(spec, how, debug_log=False):
    """Fault-free instrumented load: seam calls per stream, stream sizes."""
    simio.install()
    saved = rv.errors.RAISE_CONTROLLER_VALUE_ERRORS
    try:
        ctx, _, _, exit_, _ = _do_load({"k": "load", "file": spec, "how": how, "flag0": True, "debug_log": debug_log}, profile=True)
    finally:
        rv.errors.RAISE_CONTROLLER_VALUE_ERRORS = saved
    env.LOG.take()
    per = {}
    for sid, call, arg, pos in ctx.calls:
        per.setdefault(sid, {"read": [], "seek": [], "tell": [], "close": [], "write": []})[call].append(arg)
    sizes = {s.sid: len(s.data or b"") for s in ctx.streams}
    datas = {s.sid: (s.data or b"") for s in ctx.streams}
    return per, sizes, datas, exit_


def fault_space(spec, how, dense_limit=3000, stride=7, debug_log=False):
    """Every single-fault plan for this (file, access mode): the property's quantifier."""
    per, sizes, datas, _ = profile(spec, how, debug_log)
    plans = [[]]  # fault-free
    for sid in sorted(per):
        calls = per[sid]
        for k, n in enumerate(calls["read"]):
            for kind in ("read_eio", "read_cancel", "read_nomem"):
                plans.append([{"kind": kind, "stream": sid, "at": k}])
            if n is not None and n > 1:
                plans.append([{"kind": "read_short", "stream": sid, "at": k}])
        for k in range(len(calls["seek"])):
            plans.append([{"kind": "seek_err", "stream": sid, "at": k}])
            plans.append([{"kind": "seek_cancel", "stream": sid, "at": k}])
        for k in range(len(calls["tell"])):
            plans.append([{"kind": "tell_err", "stream": sid, "at": k}])
            plans.append([{"kind": "tell_cancel", "stream": sid, "at": k}])
    for sid in sorted(sizes):
        if how in ("clone", "clone_module") and sid == 0:
            continue  # the scratch buffer's content is produced by the library's own writer
        data = datas[sid]
        offs = set(chunkio.boundaries(data))
        for b in list(offs):
            offs.update((b + 4, b + 8))  # inside the header, right after the header
        if len(data) < dense_limit:
            offs.update(range(len(data)))
        else:
            offs.update(range(0, len(data), stride))
        for o in sorted(x for x in offs if 0 <= x < len(data)):
            plans.append([{"kind": "trunc", "stream": sid, "at": o}])
    if how in ("file", "str", "path"):
        # the stream is a pipe: every seek/tell fails with ESPIPE, seekable() is False
        plans.append([{"kind": "nonseekable", "stream": 0}])
        nreads0 = len(per.get(0, {}).get("read", ()))
        for k in sorted({0, 1, 2, nreads0 // 2, max(nreads0 - 1, 0)}):
            plans.append([{"kind": "nonseekable", "stream": 0}, {"kind": "read_eio", "stream": 0, "at": k}])
            plans.append([{"kind": "nonseekable", "stream": 0}, {"kind": "read_cancel", "stream": 0, "at": k}])
        for sid in sorted(per):
            if sid > 0:
                plans.append([{"kind": "nonseekable", "stream": sid}])
    if how in ("str", "path"):
        plans.append([{"kind": "open_enoent"}])
        plans.append([{"kind": "open_eacces"}])
        plans.append([{"kind": "close_err", "stream": 0, "at": 0}])
        nreads = len(per.get(0, {}).get("read", ()))
        for k in sorted({0, 1, nreads // 2, max(nreads - 1, 0)}):
            plans.append([{"kind": "read_eio", "stream": 0, "at": k}, {"kind": "close_err", "stream": 0, "at": 0}])
    return plans


def seeded_flips(spec, how, seed, count):
    data = files.materialize(spec)
    r = seeds.rng(seed, "flips", files.spec_label(spec))
    bounds = chunkio.boundaries(data)
    danger = chunkio.alloc_field_offsets(data)
    plans = []
    for _ in range(count * 2):
        if len(plans) >= count:
            break
        if r.random() < 0.6 and bounds:
            o = r.choice(bounds) + r.randrange(0, 12)
        else:
            o = r.randrange(max(len(data), 1))
        o = min(max(o, 0), max(len(data) - 1, 0))
        if o in danger:
            continue
        plans.append([{"kind": "flip", "stream": 0, "at": o, "xor": r.choice([1, 0x80, 0xFF, r.randrange(1, 256)])}])
    return plans


# ---------------------------------------------------------------------------
# population


def population(tier, seed):
    specs = [{"src": "fixture", "name": n} for n in files.fixture_names()]
    return specs


def lenient_specs():
    """Fixtures with one CVAL pushed out of range: the lenient-warning path runs on a
    *successful* load."""
    out = []
    for n in files.fixture_names():
        if n.endswith(".sunsynth"):
            out.append({"src": "fixture", "name": n, "perturb": [["cval", 0, 0x7FFFFFF0]]})
    return out


def gen_specs(tier, seed):
    try:
        from .. import builder
    except ImportError:
        return []
    n = 12 if tier == "quick" else 120
    return [{"src": "gen", "seed": seeds.derive(seed, "c18gen", i) % (1 << 31), "nest": True, "layout": 2} for i in range(n)]


# ---------------------------------------------------------------------------
# plan / run_unit


def plan(tier, seed):
    units = []
    fx = population(tier, seed)
    by_size = sorted(fx, key=lambda s: len(files.materialize(s)))
    if tier == "quick":
        sweep = by_size[:10]
        # plus a rotating window of the rest, chosen by the seed, so that successive
        # quick runs with different seeds walk through the whole fixture set
        rest = by_size[10:]
        r = seeds.rng(seed, "c18-window")
        sweep += r.sample(rest, min(8, len(rest)))
        hows = ("file", "path")
    else:
        sweep = by_size
        hows = ("file", "path", "str")
    for spec in sweep:
        for how in hows:
            for flag0 in (True, False):
                units.append({"kind": "sweep", "file": spec, "how": how, "flag0": flag0})
    for spec in (lenient_specs()[:6] if tier == "quick" else lenient_specs()):
        units.append({"kind": "sweep", "file": spec, "how": "path", "flag0": True, "calls_only": True})
        units.append({"kind": "sweep", "file": spec, "how": "file", "flag0": False, "calls_only": True})
        units.append({"kind": "sweep", "file": spec, "how": "path", "flag0": True, "calls_only": True, "strict_read": True})
        units.append({"kind": "sweep", "file": spec, "how": "path", "flag0": False, "calls_only": True, "strict_read": True})
    for spec in gen_specs(tier, seed):
        units.append({"kind": "sweep", "file": spec, "how": "path", "flag0": True, "calls_only": True, "sample": 400})
    # the same sweeps under other configurations: DEBUG logging; the load wrapped in the public context manager
    cfg_files = by_size[:4] + [s_ for s_ in by_size if "metamodule.sunsynth" == s_["name"] or "sampler" in s_["name"]]
    if tier != "quick":
        cfg_files = by_size
    for spec in cfg_files:
        units.append({"kind": "sweep", "file": spec, "how": "file", "flag0": True, "debug_log": True, "calls_only": True})
        units.append({"kind": "sweep", "file": spec, "how": "path", "flag0": False, "debug_log": True, "calls_only": True})
        units.append({"kind": "sweep", "file": spec, "how": "file", "flag0": True, "ctxmgr": True, "calls_only": True})
        units.append({"kind": "sweep", "file": spec, "how": "path", "flag0": True, "ctxmgr": False, "calls_only": True})
        units.append({"kind": "sweep", "file": spec, "how": "file", "flag0": True, "ctxmgr": True, "assign_inside": False, "calls_only": True, "sample": 300})
        units.append({"kind": "sweep", "file": spec, "how": "path", "flag0": True, "ctxmgr": False, "assign_inside": True, "calls_only": True, "sample": 300})
    # loads that happen inside Container.clone() / Module.clone(): faults on the scratch buffer
    clone_files = [s_ for s_ in by_size if s_["name"].endswith(".sunvox")] + [s_ for s_ in by_size if "metamodule" in s_["name"] or "sampler" in s_["name"]]
    clone_synths = by_size[:6] + [s_ for s_ in by_size if "metamodule" in s_["name"] or "sampler" in s_["name"]]
    if tier != "quick":
        clone_files, clone_synths = by_size, [s_ for s_ in by_size if s_["name"].endswith(".sunsynth")]
    for spec in clone_files:
        for flag0 in (True, False):
            units.append({"kind": "sweep", "file": spec, "how": "clone", "flag0": flag0})
    for spec in clone_synths:
        if spec["name"].endswith(".sunsynth"):
            units.append({"kind": "sweep", "file": spec, "how": "clone_module", "flag0": True})
            units.append({"kind": "sweep", "file": spec, "how": "clone_module", "flag0": False})
    # size swarm: a multi-megabyte file (by path, by file object, and cloned)
    huge = {"src": "gen", "seed": 4242, "layout": 2, "huge": True, "n": 3}
    for how, fl in (("path", True), ("str", False), ("file", True)):
        units.append({"kind": "sweep", "file": huge, "how": how, "flag0": fl, "calls_only": True, "sample": 40 if tier == "quick" else 400})
    nflip = 40 if tier == "quick" else 400
    for spec in fx:
        units.append({"kind": "flips", "file": spec, "count": nflip, "seed": seed})
    nhist = 3000 if tier == "quick" else 60000
    per = 250
    for i in range(0, nhist, per):
        units.append({"kind": "seeded", "seed": seed, "first": i, "count": min(per, nhist - i), "tier": tier})
    # big units first for load balance
    units.sort(key=lambda u: 0 if u["kind"] == "sweep" else 1)
    return units


def generate(seed, i, tier="quick"):
    """A seeded multi-op history."""
    r = seeds.rng(seed, "c18hist", i)
    fx = population(tier, seed) + lenient_specs()
    ops = []
    n = r.randint(1, 12)
    for _ in range(n):
        x = r.random()
        if x < 0.6:
            spec = r.choice(fx)
            how = r.choice(("file", "str", "path", "file", "str", "path", "clone", "clone_module"))
            faults = []
            if r.random() < 0.75:
                plans = _cached_space(spec, how)
                faults = list(r.choice(plans))
                if r.random() < 0.25:  # a second fault in the same load (e.g. short read, then EIO; nested + close)
                    faults = faults + [f for f in r.choice(plans) if f not in faults]
            elif r.random() < 0.5:
                faults = seeded_flips(spec, how, r.randrange(1 << 30), 1)[0]
            ops.append({"k": "load", "file": spec, "how": how, "flag0": r.random() < 0.5, "faults": faults, "strict_read": r.random() < 0.15,
                        "debug_log": r.random() < 0.15, "ctxmgr": r.choice([None, None, None, None, True, False]),
                        "assign_inside": r.choice([None, None, True, False])})
        elif x < 0.9:
            ops.append({"k": "probe", "sel": r.randrange(6)})
        else:
            ops.append({"k": "set_flag", "v": r.random() < 0.5})
    ops.append({"k": "probe", "sel": r.randrange(6)})
    return {"property": PROPERTY, "world": "loader", "ops": ops}


_space_cache = {}


def _cached_space(spec, how):
    hk = how if how in ("file", "clone", "clone_module") else "path"
    key = (files.spec_label(spec), repr(spec.get("perturb")), hk)
    if key not in _space_cache:
        _space_cache[key] = fault_space(spec, hk)
    sp = _space_cache[key]
    return sp


def run_unit(unit):
    acc = Acc()
    kind = unit["kind"]
    if kind == "sweep":
        spec, how, flag0 = unit["file"], unit["how"], unit["flag0"]
        plans = fault_space(spec, how, debug_log=bool(unit.get("debug_log")))
        if unit.get("calls_only"):
            plans = [p for p in plans if not p or p[0]["kind"] != "trunc"]
        if unit.get("sample") and len(plans) > unit["sample"]:
            r = seeds.rng(0, "c18sample", files.spec_label(spec))
            plans = r.sample(plans, unit["sample"])
        for p in plans:
            case = {
                "property": PROPERTY,
                "world": "loader",
                "ops": [{"k": "load", "file": spec, "how": how, "flag0": flag0, "faults": p, "strict_read": bool(unit.get("strict_read")), "debug_log": bool(unit.get("debug_log")), "ctxmgr": unit.get("ctxmgr"), "assign_inside": unit.get("assign_inside")}, {"k": "probe", "sel": 0}],
            }
            acc.run(execute, case)
        acc.probes["sweep_complete:%s" % how] += 1
    elif kind == "flips":
        spec = unit["file"]
        for j, p in enumerate(seeded_flips(spec, "file", unit["seed"], unit["count"])):
            case = {
                "property": PROPERTY,
                "world": "loader",
                "ops": [
                    {"k": "load", "file": spec, "how": ("file", "path")[j % 2], "flag0": bool(j % 3), "faults": p},
                    {"k": "probe", "sel": j},
                ],
            }
            acc.run(execute, case)
    elif kind == "seeded":
        for i in range(unit["first"], unit["first"] + unit["count"]):
            case = generate(unit["seed"], i, unit.get("tier", "quick"))
            acc.run(execute, case, isolate=True)
    else:
        raise ValueError(kind)
    return acc.to_dict()


def shrink_candidates(case):
    ops = case["ops"]
    for i, op in enumerate(ops):
        if op["k"] == "load":
            if op.get("faults"):
                for j in range(len(op["faults"])):
                    new = dict(op, faults=op["faults"][:j] + op["faults"][j + 1 :])
                    yield dict(case, ops=ops[:i] + [new] + ops[i + 1 :])
            if op.get("how") != "file":
                pass
            if op["file"].get("perturb"):
                new = dict(op, file={k: v for k, v in op["file"].items() if k != "perturb"})
                yield dict(case, ops=ops[:i] + [new] + ops[i + 1 :])
            smallest = {"src": "fixture", "name": "dc-blocker.sunsynth"}
            if op["file"] != smallest and not op.get("faults"):
                yield dict(case, ops=ops[:i] + [dict(op, file=smallest)] + ops[i + 1 :])
