"""C01 - project save/load round trip preserves the whole project.

World `store`: one actor edits one project through the public API (seeded op
history), saves it to the SimDisk, *restarts* (drops every live object), loads the
durable bytes and keeps editing the loaded object - so histories cross the persistence
boundary several times.  Oracle at every restart: the load does not raise and
snapshot(loaded) == N(snapshot(live at save time)), path by path.
I/O faults cannot change whether this property holds; the deciding half of the
technique here is seeded histories + restart + reference snapshot.
"""
from .. import builder, env, seeds, simio, snapshot, noise, trash  # noqa: F401
from ..runner import Acc
from ..simio import Ctx, HarnessTimeout, active

from rv.readers.reader import read_sunvox_file

PROPERTY = "C01"
LEVEL = "exploration"
BUDGET_S = {"quick": 150, "thorough": 3600}
RULE = (
    "one evaluation = one seeded history of up to ~100 API operations (new module of any of the 42 types, set any "
    "catalogue slot incl. controllers/options/MIDI bindings/type-specific payload, connect/disconnect in every operand "
    "form, patterns/clones/empty slots, note cells, project fields, edits inside embedded MetaModule projects) crossing "
    "1-4 save -> restart -> load boundaries, each compared path by path with the pre-save snapshot. non-trivial = the "
    "history reached at least one restart with >= 2 modules; distinct = distinct op lists (hash)"
)
STATE_MEASURE = "hash of the canonical snapshot at each restart point"
COMPONENTS = {
    "real": ["rv.* writer (Project.chunks, Module.iff_chunks, all specialized_iff_chunks) and reader stack, all 43 module classes"],
    "stub": ["SimFile for the saved bytes", "logging handler"],
}
ASSUMPTIONS = [
    "observable state = the allow-list snapshot of DESIGN Appendix A; attributes outside it are invisible to the oracle",
    "domain restrictions of DESIGN §5/C01 (flags superset of default flags, layer/midi channel non-negative, sync flags 0..7, no NUL in text, no trailing empty module positions, MetaModule.update_user_defined_controllers() after mapping edits)",
    "module names compare through the documented 32-byte UTF-8 prefix rule",
]


def trunc32(s):
    b = s.encode("utf-8")
    if len(b) <= 32:
        return s
    b = b[:32]
    while True:
        try:
            return b.decode("utf-8")
        except UnicodeDecodeError:
            b = b[:-1]


def normalise(snap):
    out = {}
    for path, v in snap.items():
        if path and path[-1] == "name" and len(path) >= 2 and isinstance(v, str):
            parent = path[-2]
            if (len(path) >= 3 and path[-3] == "mod") or parent == "module":
                v = trunc32(v)
        out[path] = v
    return out


def owner_type(snap, path):
    """Type of the innermost module a path belongs to ('Project' / 'Pattern' otherwise)."""
    best = None
    for i in range(len(path)):
        if path[i] == "mod" and i + 1 < len(path):
            t = snap.get(tuple(path[: i + 2]) + ("type",))
            if t:
                best = t
        elif path[i] == "module":
            t = snap.get(tuple(path[: i + 1]) + ("type",))
            if t:
                best = t
    if best:
        return best
    if "pat" in path:
        return "Pattern"
    return "Project"


def save_load(project, violations, i, probes, scribble=None):
    """-> (loaded project or None, snapshot before, snapshot after or None)

    scribble: the saved bytes are first loaded by somebody else, who writes all over that copy in
    place and drops it; the load that is judged is the second one of the same bytes."""
    builder.normalise_metamodules(project)
    before = snapshot.snapshot(project)
    try:
        data = project.read()
    except (KeyboardInterrupt, HarnessTimeout):
        raise
    except BaseException as e:
        violations.append({"property": PROPERTY, "oracle": "save_raises", "exc": type(e).__name__, "detail": {"op": i, "msg": str(e)[:200]}})
        return None, before, None
    if scribble is not None:
        ctx0 = Ctx(())
        try:
            with active(ctx0):
                other = read_sunvox_file(ctx0.new_stream(data, "arg"))
            probes["scribbled_first_copy_leaves"] = probes.get("scribbled_first_copy_leaves", 0) + trash.scribble(other, scribble)
            del other
        except (KeyboardInterrupt, HarnessTimeout):
            raise
        except BaseException:
            pass  # judged below, on the load that counts
        env.LOG.take()
    ctx = Ctx(())
    with active(ctx):
        try:
            loaded = read_sunvox_file(ctx.new_stream(data, "arg"))
        except (KeyboardInterrupt, HarnessTimeout):
            raise
        except BaseException as e:
            violations.append({"property": PROPERTY, "oracle": "reload_raises", "exc": type(e).__name__, "detail": {"op": i, "msg": str(e)[:200], "bytes": len(data)}})
            return None, before, None
    env.LOG.take()
    if loaded is None or type(loaded).__name__ != "Project":
        violations.append({"property": PROPERTY, "oracle": "reload_raises", "exc": "returned:" + type(loaded).__name__, "detail": {"op": i}})
        return None, before, None
    after = snapshot.snapshot(loaded)
    want = normalise(before)
    seen = set()
    for path, a, b in snapshot.diff(want, after, limit=200):
        t = owner_type(before, path)
        pc = snapshot.path_class(path)
        key = (t, pc)
        if key in seen:
            continue
        seen.add(key)
        violations.append(
            {
                "property": PROPERTY,
                "oracle": "roundtrip_equal",
                "type": t,
                "path": pc,
                "detail": {"op": i, "at": list(path), "saved": snapshot.short(a), "loaded": snapshot.short(b), "first_index": snapshot.first_index(a, b)},
            }
        )
    return loaded, before, after


def execute(case):
    layout = case.get("layout", 1)
    s = builder.Session(layout=layout)
    violations = []
    probes = {}
    states = []
    log = []
    restarts = 0
    nontrivial = False
    for i, op in enumerate(case["ops"]):
        if op["k"] == "save_load":
            loaded, before, after = save_load(s.project, violations, i, probes, scribble=op.get("scribble"))
            restarts += 1
            states.append(seeds.h64(sorted(before.items(), key=lambda kv: repr(kv[0]))))
            if before.get(("nmodules",), 0) >= 2:
                nontrivial = True
            if loaded is not None:
                s = builder.Session(loaded, layout=layout)
            log.append((i, "save_load", loaded is not None, seeds.digest(sorted((repr(k), repr(v)) for k, v in before.items()))))
        elif op["k"] == "save" and op.get("abort") is not None:
            # save attempts that are cut short at every write index / writers abandoned after every chunk
            out = s.apply({"k": "bad", "kind": builder.BAD_KINDS.index("aborted_save_sweep" if op["abort"] & 1 else "abandoned_writer_sweep"), "m": 0, "v": op["abort"] >> 1})
            probes["op:aborted_saves"] = probes.get("op:aborted_saves", 0) + 1
            log.append((i, out))
        elif op["k"] == "save":
            # an intermediate save without restart (users save while they keep editing)
            try:
                d1 = s.project.read()
                log.append((i, "save", seeds.digest(d1)))
            except (KeyboardInterrupt, HarnessTimeout):
                raise
            except BaseException as e:
                violations.append({"property": PROPERTY, "oracle": "save_raises", "exc": type(e).__name__, "detail": {"op": i, "msg": str(e)[:200]}})
        else:
            out = s.apply(op)
            probes["op:" + out.split(":")[0]] = probes.get("op:" + out.split(":")[0], 0) + 1
            if out.startswith("error:"):
                probes["op_error:" + out] = probes.get("op_error:" + out, 0) + 1
            log.append((i, out))
    for k, v in env.LOG.take().items():
        pass
    return {
        "violations": violations,
        "fired": {"restart": restarts},
        "probes": probes,
        "nontrivial": [seeds.h64(case["ops"])] if nontrivial else [],
        "states": states,
        "digest": seeds.digest(log),
        "outcome": log[-3:],
        "steps": len(case["ops"]),
    }


def generate(seed, i, tier="quick"):
    r = seeds.rng(seed, "c01hist", i)
    # swarm: per-run op weights
    w = {k: v * r.choice([0.3, 1, 1, 2]) for k, v in builder.DEFAULT_WEIGHTS.items()}
    ops = []
    segs = r.randint(1, 4)
    first = True
    for _ in range(segs):
        n = r.randint(3, 40 if tier == "quick" else 60)
        if first:
            ops += builder.gen_ops(r, n, w, first_mods=r.randint(1, 6))
            first = False
        else:
            ops += [builder.gen_op(r, w) for _ in range(n)]
        if r.random() < 0.35:
            ops.insert(len(ops) - r.randint(0, min(n, 6)), {"k": "save"})
        if r.random() < 0.15:
            ops.insert(len(ops) - r.randint(0, min(n, 12)), {"k": "save", "abort": r.getrandbits(30)})
        ops.append({"k": "save_load", "scribble": r.randrange(1000)} if r.random() < 0.3 else {"k": "save_load"})
    # swarm: half of the runs concentrate their slot edits on one module (position 1-3), so that
    # joint states of one module's type-specific payload are reached, not only single edits
    u = r.random()
    if u < 0.3:
        # ... a third of the runs on a module of a payload-rich type, created first (position 1)
        rich = ("Sampler", "Sampler", "Sampler", "Sampler", "MetaModule", "MultiSynth", "MultiCtl", "SpectraVoice", "Generator", "AnalogGenerator", "WaveShaper", "Fmx", "VorbisPlayer", "Sound2Ctl")
        if ops and ops[0]["k"] == "mod":
            ops[0] = {"k": "mod", "t": builder.TYPE_NAMES.index(r.choice(rich))}
        for op in ops:
            if op["k"] == "set" and r.random() < 0.75:
                op["m"] = 1
    elif u < 0.6:
        fm = r.randint(1, 3)
        for op in ops:
            if op["k"] == "set" and r.random() < 0.6:
                op["m"] = fm
    noise.sprinkle(r, ops)
    return {"property": PROPERTY, "world": "store", "layout": 2, "ops": ops}


def plan(tier, seed):
    n = 6000 if tier == "quick" else 150000
    per = 100
    return [{"kind": "seeded", "seed": seed, "first": i, "count": min(per, n - i), "tier": tier} for i in range(0, n, per)]


def run_unit(unit):
    acc = Acc()
    for i in range(unit["first"], unit["first"] + unit["count"]):
        case = generate(unit["seed"], i, unit.get("tier", "quick"))
        acc.run(execute, case, isolate=True)
    return acc.to_dict()


def shrink_candidates(case):
    ops = case["ops"]
    for i, op in enumerate(ops):
        if op["k"] == "embed":
            # try the inner op at top level is a different op; instead simplify inner value
            inner = op["op"]
            if "v" in inner and inner["v"] > 7:
                yield dict(case, ops=ops[:i] + [dict(op, op=dict(inner, v=inner["v"] & 7))] + ops[i + 1 :])
        if "v" in op and isinstance(op["v"], int) and op["v"] > 7:
            for nv in (op["v"] & 7, op["v"] & 0xFFFF, op["v"] >> 1):
                if nv != op["v"]:
                    yield dict(case, ops=ops[:i] + [dict(op, v=nv)] + ops[i + 1 :])


def extra_coverage():
    return {"catalogue_cross_check": snapshot.catalogue_exclusions()}
