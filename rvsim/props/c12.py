"""C12 - note cells and packed bit-fields are lossless; sub-field setters independent.

World `words`: an actor holds notes (in a pattern attached to a project), the
visualization word and MIDI-in word of modules and the project's sync word.  A seeded
history of sub-field writes, whole-word writes, primary-field writes, whole-pattern
byte images and save -> restart -> load.  Reference model: one integer per packed word
with the documented field layout.  Sampled histories, not a complete enumeration of
(old word, sub-field, new value) triples - the manifest says so.
"""
import struct

from .. import builder, env, seeds, simio, noise  # noqa: F401
from ..runner import Acc
from ..simio import Ctx, HarnessTimeout, active

import rv.modules as M
from rv.modules.module import LevelMode, Orientation, OscilloscopeMode
from rv.note import NOTECMD
from rv.pattern import Pattern
from rv.project import Project
from rv.readers.reader import read_sunvox_file

PROPERTY = "C12"
LEVEL = "exploration"
BUDGET_S = {"quick": 60, "thorough": 3600}
RULE = (
    "one evaluation = one seeded history of 5-60 writes to packed words: note sub-fields (controller, effect, XX, YY), "
    "note words (ctl, val), primary note fields over their domains (every NOTECMD, vel 0..129, 16-bit module), whole "
    "pattern byte images of valid cells, the six visualization parts (defined members for enumerated parts, any int for "
    "clamped parts), MIDI-in always/channel, project sync flags, with save -> restart -> load in between; after every "
    "write every sub-field of the touched word is compared with the field model, Note.raw_data with the documented "
    "8-byte packing, Pattern.raw_data with the row-major join. non-trivial = at least one sub-field was written over "
    "a non-zero old value; distinct = distinct op lists"
)
STATE_MEASURE = "hash of all model words after each op"
COMPONENTS = {"real": ["rv.note.Note", "rv.pattern.Pattern.raw_data", "rv.modules.module.Visualization", "SMII / SFGS / SVPR / PDTA writer and reader"], "stub": ["SimFile"]}
ASSUMPTIONS = [
    "field layout from docs/sunvox-file-format.rst: ctl = CC<<8 | EE, val = XX<<8 | YY; visualization: level 0-4 (5 bits), orientation bit 5, oscilloscope mode bits 8-12, size bits 16-23 (clamped), bg transparency bits 24-25 (clamped 0..3), shadow opacity bits 26-27 (clamped 0..3); SMII = always | channel<<1; SFGS = midi | other<<3",
    "enumerated parts only ever hold defined members (as the statement says); sync flags 0..7",
    "this is sampled history exploration: a setter that fails only for one specific old value may be missed",
]

NOTE_VALUES = [int(x) for x in NOTECMD]
VIZ_FIELDS = ("level_mode", "orientation", "oscilloscope_mode", "oscilloscope_size", "bg_transparency", "shadow_opacity")
VIZ_LAYOUT = {  # name -> (shift, width)
    "level_mode": (0, 5),
    "orientation": (5, 1),
    "oscilloscope_mode": (8, 5),
    "oscilloscope_size": (16, 8),
    "bg_transparency": (24, 2),
    "shadow_opacity": (26, 2),
}


def _v(oracle, **kw):
    d = {"property": PROPERTY, "oracle": oracle}
    d["detail"] = kw.pop("detail", {})
    d.update(kw)
    return d


def viz_get(word, name):
    sh, w = VIZ_LAYOUT[name]
    return (word >> sh) & ((1 << w) - 1)


def viz_put(word, name, val):
    sh, w = VIZ_LAYOUT[name]
    mask = ((1 << w) - 1) << sh
    return (word & ~mask) | ((val << sh) & mask)


def valid_viz_word(v):
    w = v & 0xFFFFFFFF
    w = viz_put(w, "level_mode", viz_get(w, "level_mode") % 5)
    w = viz_put(w, "oscilloscope_mode", viz_get(w, "oscilloscope_mode") % 8)
    return w


class World:
    def __init__(self, lines, tracks, nmods):
        self.project = Project()
        for j in range(nmods):
            self.project.new_module(builder.SIMPLE_TYPES[(j * 5) % len(builder.SIMPLE_TYPES)])
        self.pattern = Pattern(lines=lines, tracks=tracks)
        self.project.attach_pattern(self.pattern)
        self.cells = [[[0, 0, 0, 0, 0] for _ in range(tracks)] for _ in range(lines)]
        self.viz = [0x000C0101 for _ in self.project.modules]
        self.midi = [[False, 0] for _ in self.project.modules]
        self.sync = [1, 1]


FILE_SPECS = [{"src": "fixture", "name": n} for n in ("issue109/filter_lfo.sunvox", "issue54/test1.sunvox", "module-multiselect.sunvox", "single-fm.sunvox", "supertracks.sunvox")]


class FileWorld(World):
    """The same world, but the project comes out of the reader (incl. a file stamped with an
    old SunVox version, whose module numbers the loader narrows by design *at load time*)."""

    def __init__(self, spec):
        from .. import files

        ctx = Ctx(())
        with active(ctx):
            self.project = read_sunvox_file(ctx.new_stream(files.materialize(spec), "arg"))
        env.LOG.take()
        self.pattern = next(p for p in self.project.patterns if isinstance(p, Pattern))
        # the model is decoded from the byte image by the harness itself, WITHOUT touching pattern.data
        raw = self.pattern.raw_data
        lines, tracks = self.pattern.lines, self.pattern.tracks
        self.cells = [[list(struct.unpack("<BBHHH", raw[(l * tracks + t) * 8 : (l * tracks + t) * 8 + 8])) for t in range(tracks)] for l in range(lines)]
        self.viz = [int(m.visualization) if m is not None else 0 for m in self.project.modules]
        self.midi = [[bool(m.midi_in_always), m.midi_in_channel] if m is not None else [False, 0] for m in self.project.modules]
        self.sync = [int(self.project.receive_sync_midi), int(self.project.receive_sync_other)]


def image_cells(r, lines, tracks, sparse=None):
    """Cells of a seeded pattern image; a sparse one leaves about half of the cells empty (all zero)."""
    cells = [[[r.choice(NOTE_VALUES), r.randrange(130), r.getrandbits(16), r.getrandbits(16), r.getrandbits(16)] for _ in range(tracks)] for _ in range(lines)]
    if sparse:
        rr = seeds.rng(sparse, "sparse")
        for row in cells:
            for t in range(len(row)):
                if rr.random() < 0.5:
                    row[t] = [0, 0, 0, 0, 0]
    return cells


def hold(w):
    """References to the notes, taken once (at setup / after a restart) like a caller would keep them."""
    w.held = [[n for n in line] for line in w.pattern.data]


def unhold(w):
    """Forget the references without looking at the grid (they are taken again when first needed)."""
    w.held = None


def raw_first(w, violations, i, when):
    """Pattern.raw_data against the model BEFORE anything touches pattern.data again."""
    want = b"".join(struct.pack("<BBHHH", *c) for row in w.cells for c in row)
    if w.pattern.raw_data != want:
        violations.append(_v("pattern_raw_data_row_major", when=when, detail={"op": i}))


def check_note(w, l, t, violations, i, wrote=None):
    n = w.pattern.data[l][t]
    note, vel, module, ctl, val = w.cells[l][t]
    want = {"note": note, "vel": vel, "module": module, "ctl": ctl, "val": val, "controller": ctl >> 8, "effect": ctl & 0xFF, "val_xx": val >> 8, "val_yy": val & 0xFF}
    got = {"note": int(n.note), "vel": n.vel, "module": n.module, "ctl": n.ctl, "val": n.val, "controller": n.controller, "effect": n.effect, "val_xx": n.val_xx, "val_yy": n.val_yy}
    bad = [k for k in want if want[k] != got[k]]
    if bad:
        sub = ("controller", "effect", "val_xx", "val_yy")
        if wrote in sub and wrote in bad:
            what, field = "written_field_wrong", wrote
        else:
            what = "other_field_changed"
            field = next((b for b in bad if b in sub and b != wrote), bad[0])
        violations.append(_v("subfield_write", word="note", field=field, what=what, detail={"op": i, "wrote": wrote, "bad": bad, "want": {k: want[k] for k in bad}, "got": {k: got[k] for k in bad}}))
        # resync
        w.cells[l][t] = [got["note"], got["vel"], got["module"], got["ctl"], got["val"]]
    raw = struct.pack("<BBHHH", *w.cells[l][t])
    if n.raw_data != raw:
        violations.append(_v("note_raw_data", detail={"op": i, "got": n.raw_data.hex(), "want": raw.hex()}))


def check_pattern_raw(w, violations, i):
    want = b"".join(struct.pack("<BBHHH", *c) for row in w.cells for c in row)
    if w.pattern.raw_data != want:
        violations.append(_v("pattern_raw_data_row_major", detail={"op": i}))


def check_viz(w, mi, obj, violations, i, wrote=None):
    word = w.viz[mi]
    bad = []
    got_d = {}
    for f in VIZ_FIELDS:
        try:
            g = int(getattr(obj, f))
        except ValueError as e:
            g = "ValueError"
        got_d[f] = g
        if g != viz_get(word, f):
            bad.append(f)
    if int(obj) != word and not bad:
        bad.append("unnamed_bits")
    if bad:
        if wrote in bad:
            what, field = "written_field_wrong", wrote
        else:
            what, field = "other_field_changed", bad[0]
        violations.append(_v("subfield_write", word="visualization", field=field, what=what, detail={"op": i, "wrote": wrote, "bad": bad, "word": hex(word), "got_word": hex(int(obj))}))
        w.viz[mi] = int(obj) & 0xFFFFFFFF


def execute(case):
    w = None
    violations = []
    probes = {}
    states = []
    log = []
    overwrote_nonzero = False
    for i, op in enumerate(case["ops"]):
        k = op["k"]
        if k == "bgload":
            noise.run(op)
            continue
        if k == "setup":
            w = World(1 + op.get("lines", 3) % 8, 1 + op.get("tracks", 2) % 4, op.get("nmods", 2) % 4)
            hold(w)
            log.append((i, "setup"))
            continue
        if k == "setup_file":
            w = FileWorld(FILE_SPECS[op.get("f", 0) % len(FILE_SPECS)])
            unhold(w)
            probes["world_from_file"] = probes.get("world_from_file", 0) + 1
            log.append((i, "setup_file", op.get("f", 0) % len(FILE_SPECS)))
            continue
        if w is None:
            w = World(2, 2, 1)
            hold(w)
        lines, tracks = len(w.cells), len(w.cells[0])
        try:
            if k in ("nsub", "nword", "nprim"):
                l, t = op["l"] % lines, op["t"] % tracks
                held = bool(op.get("held"))
                if w.held is None:
                    hold(w)
                n = w.held[l][t] if held else w.pattern.data[l][t]
                if held:
                    probes["write_through_held_reference"] = probes.get("write_through_held_reference", 0) + 1
                c = w.cells[l][t]
                v = op["v"]
                wrote = None
                if k == "nsub":
                    f = ("controller", "effect", "val_xx", "val_yy")[op["f"] % 4]
                    x = v & 0xFF
                    old = {"controller": c[3] >> 8, "effect": c[3] & 0xFF, "val_xx": c[4] >> 8, "val_yy": c[4] & 0xFF}[f]
                    if old:
                        overwrote_nonzero = True
                        probes["subfield_overwrite_of_nonzero"] = probes.get("subfield_overwrite_of_nonzero", 0) + 1
                    setattr(n, f, x)
                    if f == "controller":
                        c[3] = (c[3] & 0x00FF) | (x << 8)
                    elif f == "effect":
                        c[3] = (c[3] & 0xFF00) | x
                    elif f == "val_xx":
                        c[4] = (c[4] & 0x00FF) | (x << 8)
                    else:
                        c[4] = (c[4] & 0xFF00) | x
                    wrote = f
                elif k == "nword":
                    f = ("ctl", "val")[op["f"] % 2]
                    x = v & 0xFFFF
                    setattr(n, f, x)
                    c[3 if f == "ctl" else 4] = x
                    wrote = f
                else:
                    f = ("note", "vel", "module")[op["f"] % 3]
                    if f == "note":
                        x = NOTE_VALUES[v % len(NOTE_VALUES)]
                        n.note = x
                        c[0] = x
                    elif f == "vel":
                        x = v % 130
                        n.vel = x
                        c[1] = x
                    else:
                        x = v & 0xFFFF
                        n.module = x
                        c[2] = x
                    wrote = f
                if held:
                    pending = []
                    raw_first(w, pending, i, "after_write_through_held_reference")
                    if n is not w.pattern.data[l][t]:
                        # the pattern has replaced its Note objects since the reference was taken
                        # (nothing forbids that): the write went to a detached note, so the model
                        # must not expect it - resynchronise instead of judging
                        probes["held_reference_was_stale"] = probes.get("held_reference_was_stale", 0) + 1
                        cur = w.pattern.data[l][t]
                        w.cells[l][t] = [int(cur.note), cur.vel, cur.module, cur.ctl, cur.val]
                        hold(w)
                        wrote = None
                    else:
                        violations.extend(pending)
                check_note(w, l, t, violations, i, wrote)
                check_pattern_raw(w, violations, i)
            elif k in ("cellobj", "swap_lines", "reverse_line"):
                # the public grid is a list of lists: cells may be replaced by new Note objects,
                # lines swapped or reversed; the byte image is still the cells in row-major order
                from rv.note import Note

                d = w.pattern.data
                if k == "cellobj":
                    l, t = op["l"] % lines, op["t"] % tracks
                    v = op["v"]
                    vals = [NOTE_VALUES[v % len(NOTE_VALUES)], (v >> 8) % 130, (v >> 16) & 0xFFFF, (v >> 32) & 0xFFFF, (v >> 48) & 0xFFFF]
                    d[l][t] = Note(note=vals[0], vel=vals[1], module=vals[2], ctl=vals[3], val=vals[4], pattern=w.pattern if v & (1 << 62) else None)
                    w.cells[l][t] = vals
                elif k == "swap_lines":
                    a_, b_ = op["a"] % lines, op["b"] % lines
                    d[a_], d[b_] = d[b_], d[a_]
                    w.cells[a_], w.cells[b_] = w.cells[b_], w.cells[a_]
                else:
                    l = op["l"] % lines
                    d[l].reverse()
                    w.cells[l].reverse()
                probes["grid_structure_edit"] = probes.get("grid_structure_edit", 0) + 1
                raw_first(w, violations, i, "after_" + k)
                hold(w)
                check_pattern_raw(w, violations, i)
            elif k == "clear":
                # Pattern.clear(): every cell empty - judged on the byte image first, before anything reads the grid
                w.pattern.clear()
                w.cells = [[[0, 0, 0, 0, 0] for _ in range(tracks)] for _ in range(lines)]
                raw_first(w, violations, i, "after_clear")
                unhold(w)
                probes["pattern_cleared"] = probes.get("pattern_cleared", 0) + 1
                if op.get("peek", True):
                    for l in range(lines):
                        for t in range(tracks):
                            check_note(w, l, t, violations, i, None)
            elif k == "image_bad":
                # an image that is refused: too short (cut inside a cell or between cells).  What the grid holds
                # afterwards is whatever the library left (the statement does not promise atomicity); the
                # model takes it over from raw_data, WITHOUT looking at pattern.data, and the ordinary ops go on
                r = seeds.rng(op.get("seed", 0), "image")
                cells = image_cells(r, lines, tracks, op.get("sparse"))
                img = b"".join(struct.pack("<BBHHH", *c) for row in cells for c in row)
                cut = op.get("cut", 0) % max(1, len(img))
                try:
                    w.pattern.raw_data = img[:cut]
                    outcome = "accepted"
                except (KeyboardInterrupt, HarnessTimeout):
                    raise
                except Exception as e:
                    if not env.raised_in_rv(e) and not isinstance(e, struct.error):
                        raise
                    outcome = type(e).__name__
                unhold(w)
                now = w.pattern.raw_data
                if len(now) == 8 * lines * tracks:
                    w.cells = [[list(struct.unpack_from("<BBHHH", now, 8 * (l * tracks + t))) for t in range(tracks)] for l in range(lines)]
                probes["pattern_image_refused:" + outcome] = probes.get("pattern_image_refused:" + outcome, 0) + 1
            elif k == "image":
                r = seeds.rng(op.get("seed", 0), "image")
                cells = image_cells(r, lines, tracks, op.get("sparse"))
                img = b"".join(struct.pack("<BBHHH", *c) for row in cells for c in row)
                w.pattern.raw_data = img
                w.cells = cells
                unhold(w)
                if w.pattern.raw_data != img:
                    violations.append(_v("pattern_image_identity", when="live", detail={"op": i}))
                if op.get("peek", True):
                    for l in range(lines):
                        for t in range(tracks):
                            check_note(w, l, t, violations, i, None)
                probes["pattern_image_loaded"] = probes.get("pattern_image_loaded", 0) + 1
            elif k in ("vsub", "vword"):
                mods = w.project.modules
                live = [j for j, x in enumerate(mods) if x is not None]
                mi = live[op["m"] % len(live)]
                m = mods[mi]
                if k == "vword":
                    word = valid_viz_word(op["v"])
                    m.visualization = word
                    w.viz[mi] = word
                    check_viz(w, mi, m.visualization, violations, i, None)
                else:
                    f = VIZ_FIELDS[op["f"] % 6]
                    obj = m.visualization
                    v = op["v"]
                    if viz_get(w.viz[mi], f):
                        overwrote_nonzero = True
                    if f == "level_mode":
                        x = list(LevelMode)[v % 5]
                        setattr(obj, f, x if v & 64 else int(x))
                        newv = int(x)
                    elif f == "orientation":
                        x = list(Orientation)[v % 2]
                        setattr(obj, f, x if v & 64 else int(x))
                        newv = int(x)
                    elif f == "oscilloscope_mode":
                        x = list(OscilloscopeMode)[v % 8]
                        setattr(obj, f, x if v & 64 else int(x))
                        newv = int(x)
                    else:
                        hi = 255 if f == "oscilloscope_size" else 3
                        x = [0, hi, hi + 1, -1, (v >> 8) % (hi + 1), (v >> 8) % 1000 - 300][v % 6]
                        setattr(obj, f, x)
                        newv = max(0, min(hi, x))
                        if x != newv:
                            probes["clamped_write"] = probes.get("clamped_write", 0) + 1
                    w.viz[mi] = viz_put(w.viz[mi], f, newv)
                    check_viz(w, mi, obj, violations, i, f)
                    m.visualization = int(obj)
                    check_viz(w, mi, m.visualization, violations, i, f)
            elif k == "midi":
                mods = w.project.modules
                live = [j for j, x in enumerate(mods) if x is not None]
                mi = live[op["m"] % len(live)]
                m = mods[mi]
                if op["f"] % 2 == 0:
                    m.midi_in_always = bool(op["v"] & 1)
                    w.midi[mi][0] = bool(op["v"] & 1)
                else:
                    m.midi_in_channel = op["v"] % 17
                    w.midi[mi][1] = op["v"] % 17
                if [bool(m.midi_in_always), m.midi_in_channel] != w.midi[mi]:
                    violations.append(_v("subfield_write", word="midi_in", field=("always", "channel")[op["f"] % 2], what="live", detail={"op": i}))
            elif k == "sync":
                f = op["f"] % 2
                x = op["v"] % 8
                if w.sync[f]:
                    overwrote_nonzero = True
                if f == 0:
                    w.project.receive_sync_midi = x
                else:
                    w.project.receive_sync_other = x
                w.sync[f] = x
                if [int(w.project.receive_sync_midi), int(w.project.receive_sync_other)] != w.sync:
                    violations.append(_v("subfield_write", word="sync", field=("midi", "other")[f], what="live", detail={"op": i}))
            elif k == "save_load":
                data = w.project.read()
                ctx = Ctx(())
                with active(ctx):
                    loaded = read_sunvox_file(ctx.new_stream(data, "arg"))
                env.LOG.take()
                # "any pattern byte image made of valid cells loads and saves back byte-identically":
                # compare the pattern data chunks (whole-file stability is C05's subject)
                from .. import chunkio as _ck

                pd1 = [pl for _, nm, pl in _ck.split(data) if nm == b"PDTA"]
                pd2 = [pl for _, nm, pl in _ck.split(loaded.read()) if nm == b"PDTA"]
                if pd1 != pd2:
                    violations.append(_v("pattern_image_identity", when="resave", detail={"op": i}))
                w.project = loaded
                w.pattern = next(pp for pp in loaded.patterns if isinstance(pp, Pattern))
                unhold(w)
                if op.get("peek", True):
                    hold(w)
                check_pattern_raw(w, violations, i)
                if op.get("peek", True):
                    for l in range(lines):
                        for t in range(tracks):
                            check_note(w, l, t, violations, i, "restart")
                for mi, m in enumerate(loaded.modules):
                    if m is None:
                        continue
                    if int(m.visualization) != w.viz[mi]:
                        violations.append(_v("subfield_write", word="visualization", field="word", what="after_restart", detail={"op": i, "got": hex(int(m.visualization)), "want": hex(w.viz[mi])}))
                        w.viz[mi] = int(m.visualization)
                    check_viz(w, mi, m.visualization, violations, i, "restart")
                    if [bool(m.midi_in_always), m.midi_in_channel] != w.midi[mi]:
                        violations.append(_v("subfield_write", word="midi_in", field="either", what="after_restart", detail={"op": i, "got": [m.midi_in_always, m.midi_in_channel], "want": w.midi[mi]}))
                        w.midi[mi] = [bool(m.midi_in_always), m.midi_in_channel]
                if [int(loaded.receive_sync_midi), int(loaded.receive_sync_other)] != w.sync:
                    violations.append(_v("subfield_write", word="sync", field="either", what="after_restart", detail={"op": i, "got": [int(loaded.receive_sync_midi), int(loaded.receive_sync_other)], "want": w.sync}))
                    w.sync = [int(loaded.receive_sync_midi), int(loaded.receive_sync_other)]
            else:
                raise ValueError(op)
        except (KeyboardInterrupt, HarnessTimeout):
            raise
        except Exception as e:
            if not env.raised_in_rv(e):
                raise
            violations.append(_v("unexpected_exception", after=k, exc=type(e).__name__, detail={"op": i, "msg": str(e)[:120]}))
        st = seeds.h64(w.cells, w.viz, w.midi, w.sync)
        states.append(st)
        log.append((i, k, st))
    return {
        "violations": violations,
        "fired": {"restart": sum(1 for x in log if x[1] == "save_load")},
        "probes": probes,
        "nontrivial": [seeds.h64(case["ops"])] if overwrote_nonzero else [],
        "states": states,
        "digest": seeds.digest(log),
        "outcome": log[-2:],
        "steps": len(case["ops"]),
    }


def generate(seed, i, tier="quick"):
    r = seeds.rng(seed, "c12hist", i)
    if r.random() < 0.2:
        ops = [{"k": "setup_file", "f": r.randrange(5)}]
    else:
        ops = [{"k": "setup", "lines": r.randrange(8), "tracks": r.randrange(4), "nmods": r.randrange(4)}]
    kinds = ["nsub"] * 6 + ["nword"] * 2 + ["nprim"] * 2 + ["image", "image", "image_bad", "clear", "cellobj", "swap_lines", "reverse_line", "vsub", "vsub", "vsub", "vword", "midi", "midi", "sync", "sync", "save_load"]
    image_pool = [r.getrandbits(30), r.getrandbits(30)]  # images recur within a run (the same bytes assigned again)
    focus_cell = (r.randrange(8), r.randrange(4))
    for _ in range(r.randint(5, 60)):
        k = r.choice(kinds)
        op = {"k": k}
        if k in ("nsub", "nword", "nprim"):
            l, t = focus_cell if r.random() < 0.7 else (r.randrange(8), r.randrange(4))
            op.update(l=l, t=t, f=r.randrange(12), v=r.choice([0, 0xFF, 0xFFFF, 1, 0x80, r.getrandbits(16), r.getrandbits(16)]), held=r.random() < 0.5)
        elif k == "image":
            op["seed"] = r.choice(image_pool) if r.random() < 0.7 else r.getrandbits(30)
            op["peek"] = r.random() < 0.5
            if r.random() < 0.4:
                op["sparse"] = r.randrange(1, 1000)
        elif k == "clear":
            op["peek"] = r.random() < 0.5
        elif k == "image_bad":
            op["seed"] = r.choice(image_pool) if r.random() < 0.5 else r.getrandbits(30)
            op["cut"] = r.choice([r.randrange(1, 400), 8 * r.randrange(1, 40), 8 * r.randrange(1, 40) + r.randrange(1, 8)])
            if r.random() < 0.4:
                op["sparse"] = r.randrange(1, 1000)
        elif k == "cellobj":
            op.update(l=r.randrange(8), t=r.randrange(4), v=r.getrandbits(63))
        elif k == "swap_lines":
            op.update(a=r.randrange(8), b=r.randrange(8))
        elif k == "reverse_line":
            op.update(l=r.randrange(8))
        elif k in ("vsub", "vword"):
            op.update(m=r.randrange(4) if r.random() < 0.3 else 0, f=r.randrange(6), v=r.getrandbits(40))
        elif k == "midi":
            op.update(m=r.randrange(4), f=r.randrange(2), v=r.getrandbits(10))
        elif k == "sync":
            op.update(f=r.randrange(2), v=r.getrandbits(10))
        ops.append(op)
    for op in ops:
        if op["k"] == "save_load" and r.random() < 0.5:
            op["peek"] = False  # continue without looking at the loaded grid
    ops.append({"k": "save_load"})
    noise.sprinkle(r, ops)
    return {"property": PROPERTY, "world": "words", "ops": ops}


def plan(tier, seed):
    n = 16000 if tier == "quick" else 400000
    per = 400
    units = [{"kind": "seeded", "seed": seed, "first": i, "count": min(per, n - i), "tier": tier} for i in range(0, n, per)]
    # enumeration of (old word, sub-field, new value) triples of the note words
    if tier == "quick":
        # every old value of the written byte x 3 sibling bytes x every new value
        for f in range(4):
            units.append({"kind": "triples", "field": f, "olds": "byte"})
    else:
        # every 16-bit old word x every new value, split into 16 slices per sub-field
        for f in range(4):
            for sl in range(16):
                units.append({"kind": "triples", "field": f, "olds": "word", "slice": sl, "of": 16})
    units.append({"kind": "small_words"})
    return units


def run_triples(unit):
    """Complete enumeration for one note sub-field: the setter must replace exactly its
    byte.  One Acc evaluation per old word (256 writes each)."""
    from rv.note import Note

    acc = Acc()
    f = unit["field"]
    name = ("controller", "effect", "val_xx", "val_yy")[f]
    word_attr = "ctl" if f < 2 else "val"
    hi = f in (0, 2)
    if unit["olds"] == "byte":
        olds = [(o << 8 | sib) if hi else (sib << 8 | o) for o in range(256) for sib in (0x00, 0xFF, 0xA5)]
    else:
        olds = range(unit["slice"], 65536, unit["of"])
    n = Note()
    other_attr = "val" if word_attr == "ctl" else "ctl"
    bad = None
    count = 0
    for old in olds:
        for new in range(256):
            setattr(n, word_attr, old)
            setattr(n, other_attr, 0x5A3C)
            setattr(n, name, new)
            got = getattr(n, word_attr)
            want = ((old & 0x00FF) | (new << 8)) if hi else ((old & 0xFF00) | new)
            count += 1
            if got != want or getattr(n, name) != new or getattr(n, other_attr) != 0x5A3C:
                if bad is None:
                    bad = (old, new, got, want)
    case = {"property": PROPERTY, "world": "words", "ops": [{"k": "triples", "field": f, "olds": unit["olds"], "slice": unit.get("slice", 0), "of": unit.get("of", 1)}]}
    res = {"violations": [], "fired": {}, "probes": {"note_subfield_triples_enumerated": count}, "nontrivial": [seeds.h64("triples", f, unit["olds"], unit.get("slice", 0))], "states": [], "digest": seeds.digest(f, count, bad), "outcome": [count], "steps": count}
    if bad is not None:
        old, new, got, want = bad
        # re-express as an ordinary replayable history
        ops = [{"k": "setup", "lines": 0, "tracks": 0, "nmods": 0}, {"k": "nword", "l": 0, "t": 0, "f": 0 if word_attr == "ctl" else 1, "v": old}, {"k": "nsub", "l": 0, "t": 0, "f": f, "v": new}]
        case = {"property": PROPERTY, "world": "words", "ops": ops}
        res2 = execute(case)
        res["violations"] = res2["violations"] or [_v("subfield_write", word="note", field=name, what="written_field_wrong", detail={"old": old, "new": new, "got": got, "want": want})]
    acc.add_case_result(case, res)
    return acc.to_dict()


def run_small_words(unit):
    """Complete enumeration of the small packed words: visualization parts (defined members x
    defined members / clamped ranges), MIDI-in (2 x 17), sync flags (8 x 8), across one
    save/load each for the file-level packing."""
    acc = Acc()
    # visualization: every (field, old member, new member) with noise in the other fields
    for fi, f in enumerate(VIZ_FIELDS):
        dom = {"level_mode": 5, "orientation": 2, "oscilloscope_mode": 8, "oscilloscope_size": 256, "bg_transparency": 4, "shadow_opacity": 4}[f]
        step = 1 if dom <= 8 else 5
        for old in range(0, dom, step):
            ops = [{"k": "setup", "lines": 0, "tracks": 0, "nmods": 1}]
            base = viz_put(0xA5A5A5A5, f, old)
            ops.append({"k": "vword", "m": 0, "v": base})
            for new in range(0, dom, step):
                v = (new if dom <= 8 else 4 + (new << 8)) | 64
                if dom > 8:
                    v = 4 | (new << 8)
                ops.append({"k": "vsub", "m": 0, "f": fi, "v": v})
                ops.append({"k": "vword", "m": 0, "v": base})
            ops.append({"k": "save_load"})
            acc.run(execute, {"property": PROPERTY, "world": "words", "ops": ops})
    for a in range(2):
        for ch in range(17):
            ops = [{"k": "setup", "lines": 0, "tracks": 0, "nmods": 1}, {"k": "midi", "m": 1, "f": 0, "v": a}, {"k": "midi", "m": 1, "f": 1, "v": ch}, {"k": "save_load"}, {"k": "midi", "m": 1, "f": 0, "v": 1 - a}, {"k": "save_load"}]
            acc.run(execute, {"property": PROPERTY, "world": "words", "ops": ops})
    for x in range(8):
        for y in range(8):
            ops = [{"k": "setup", "lines": 0, "tracks": 0, "nmods": 0}, {"k": "sync", "f": 0, "v": x}, {"k": "sync", "f": 1, "v": y}, {"k": "save_load"}, {"k": "sync", "f": 0, "v": y}, {"k": "save_load"}]
            acc.run(execute, {"property": PROPERTY, "world": "words", "ops": ops})
    acc.probes["small_words_enumerated"] += 1
    return acc.to_dict()


def run_unit(unit):
    if unit["kind"] == "triples":
        return run_triples(unit)
    if unit["kind"] == "small_words":
        return run_small_words(unit)
    acc = Acc()
    for i in range(unit["first"], unit["first"] + unit["count"]):
        acc.run(execute, generate(unit["seed"], i, unit.get("tier", "quick")))
    return acc.to_dict()


def shrink_candidates(case):
    ops = case["ops"]
    for i, op in enumerate(ops):
        if "v" in op and op["v"] not in (0, 1, 0xFF):
            for nv in (0xFF, 1, 0, op["v"] & 0xFF):
                if nv != op["v"]:
                    yield dict(case, ops=ops[:i] + [dict(op, v=nv)] + ops[i + 1 :])
        if op["k"] == "setup":
            for key in ("lines", "tracks", "nmods"):
                if op.get(key, 0):
                    yield dict(case, ops=ops[:i] + [dict(op, **{key: 0})] + ops[i + 1 :])
