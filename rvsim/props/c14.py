"""C14 - ownership and indexing of modules and patterns stay coherent.

World `owner`: 2-3 projects (parties) plus a pool of free modules and patterns; a
seeded history of attach / new_module / += / attach_pattern / note.mod operations,
including attaching objects owned by *another* party (must be refused atomically) and
attaching twice, interleaved with save -> restart -> load (also from files in which
unlinked module sections were replaced by a bare SEND, i.e. loaded projects with
arbitrary patterns of empty positions).  Reference model: per project a list of slots
with the rule "lowest empty position, else append", plus an owner map.
"""
from .. import builder, chunkio, env, seeds, simio, noise  # noqa: F401
from ..runner import Acc
from ..simio import Ctx, HarnessTimeout, active

import rv.errors
from rv.modules.output import Output
from rv.pattern import Pattern, PatternClone
from rv.project import Project
from rv.readers.reader import read_sunvox_file

PROPERTY = "C14"
LEVEL = "exploration"
BUDGET_S = {"quick": 60, "thorough": 3600}
RULE = (
    "one evaluation = one seeded history of 5-40 ownership operations over 2-3 projects and a pool of free modules / "
    "patterns (attach_module, new_module, += with modules, patterns and lists, attach twice, attach an object owned by "
    "another project, attach_pattern with pattern / clone / None, note.mod get/set for module numbers at modules, gaps, "
    "zero and beyond the end, export of an attached module as a Synth (complete / write fault / abandoned writer), save -> restart -> load incl. files with module sections blanked to SEND and files whose "
    "module records had the exists bit of their stored flags word cleared / zeroed); after every op "
    "the index/parent/output invariant and the slot model are checked on every project. non-trivial = at least one "
    "refused foreign attach or one gap-filling attach or one restart occurred; distinct = distinct op lists"
)
STATE_MEASURE = "hash of (per project: slot occupancy pattern by module type, pattern kinds) after each op"
COMPONENTS = {"real": ["Project.attach_module/new_module/__iadd__/attach_pattern", "Note.mod", "SunVoxReader (module positions, gaps)", "Project.chunks"], "stub": ["SimFile", "chunk stream rewriter (module section -> SEND, SFFF flag bits)"]}
ASSUMPTIONS = [
    "re-attaching a *pattern* to the project that already owns it is not generated (the statement is silent, the code refuses)",
    "note.mod = m is generated only for modules of the note's own project or free modules",
    "trailing empty module positions are not preserved by a load (by design); gaps elsewhere are",
    "a module handle kept from a project object that was let go (after a restart) still counts as owned by another project: attaching it elsewhere must be refused; the simulator runs the garbage collector right after the old project is dropped",
    "after a restart from a file with cleared exists bits only the statement's invariants are asserted for the re-flagged records (position 0 holds the output module); untouched records keep their positions",
]


FILE_SPECS = [{"src": "fixture", "name": n} for n in ("issue109/filter_lfo.sunvox", "issue54/test1.sunvox", "module-multiselect.sunvox", "single-fm.sunvox", "supertracks.sunvox", "issue41/sample.sunvox")]


class W:
    def __init__(self, nproj, from_files=()):
        from .. import files

        self.projects = []
        for i in range(nproj):
            sel = from_files[i] if i < len(from_files) else None
            if sel is None:
                self.projects.append(Project())
            else:
                ctx = Ctx(())
                with active(ctx):
                    self.projects.append(read_sunvox_file(ctx.new_stream(files.materialize(FILE_SPECS[sel % len(FILE_SPECS)]), "arg")))
                env.LOG.take()
        self.slots = [[] for _ in range(nproj)]  # model: per project list of object keys / None
        self.mods = {}  # key -> module object
        self.pats = {}  # key -> pattern object
        self.mowner = {}  # key -> project index or None
        self.powner = {}
        self.pslots = [[] for _ in range(nproj)]
        self.n = 0
        self.wrappers = []  # MetaModules that adopted a project (kept alive)
        for i, p in enumerate(self.projects):
            for j, m in enumerate(p.modules):
                if m is None:
                    self.slots[i].append(None)
                    continue
                key = ("out", i) if j == 0 else self.key()
                self.mods[key] = m
                self.mowner[key] = i
                self.slots[i].append(key)
            for x in p.patterns:
                if x is None:
                    self.pslots[i].append(None)
                else:
                    key = self.key()
                    self.pats[key] = x
                    self.powner[key] = i
                    self.pslots[i].append(key)

    def key(self):
        self.n += 1
        return ("o", self.n)


def _v(oracle, **kw):
    d = {"property": PROPERTY, "oracle": oracle}
    d["detail"] = kw.pop("detail", {})
    d.update(kw)
    return d


def ownership_snapshot(w):
    out = []
    for pi, p in enumerate(w.projects):
        out.append(([id(m) for m in p.modules], [id(x) for x in p.patterns]))
    mo = [(k, id(m.parent) if m.parent is not None else None, m.index) for k, m in sorted(w.mods.items())]
    po = [(k, id(x.project) if x.project is not None else None) for k, x in sorted(w.pats.items())]
    return (out, mo, po)


def check_invariants(w, violations, i, after):
    for pi, p in enumerate(w.projects):
        mods = p.modules
        if not mods or mods[0] is None or mods[0] is not p.output or not isinstance(mods[0], Output):
            violations.append(_v("output_at_zero", after=after, detail={"op": i, "project": pi}))
        for j, m in enumerate(mods):
            if m is None:
                continue
            if m.index != j:
                violations.append(_v("index_equals_position", after=after, detail={"op": i, "project": pi, "pos": j, "index": m.index}))
                break
            if m.parent is not p:
                violations.append(_v("parent_is_project", after=after, detail={"op": i, "project": pi, "pos": j}))
                break
        # the same invariant inside every embedded project (a MetaModule's project is a project)
        stack = [m for m in mods if m is not None and type(m).__name__ == "MetaModule"]
        depth = 0
        while stack and depth < 50:
            depth += 1
            mm = stack.pop()
            ep = mm.project
            if ep is None:
                continue
            for j, m in enumerate(ep.modules):
                if m is None:
                    continue
                if m.index != j:
                    violations.append(_v("index_equals_position", after=after, where="embedded", detail={"op": i, "project": pi, "pos": j, "index": m.index}))
                    break
                if m.parent is not ep:
                    violations.append(_v("parent_is_project", after=after, where="embedded", detail={"op": i, "project": pi, "pos": j}))
                    break
                if type(m).__name__ == "MetaModule":
                    stack.append(m)
        model = w.slots[pi]
        actual = list(mods)
        ok = len(actual) == len(model) and all((a is None and b is None) or (b is not None and a is w.mods.get(b)) for a, b in zip(actual, model))
        if not ok:
            desc_a = [type(a).__name__ if a is not None else None for a in actual]
            desc_m = [type(w.mods.get(b)).__name__ if b is not None else None for b in model]
            violations.append(_v("positions_match_model", after=after, detail={"op": i, "project": pi, "actual": desc_a[:12], "model": desc_m[:12]}))
            # resynchronise so that one defect is reported once
            inv = {id(m): k for k, m in w.mods.items()}
            w.slots[pi] = [inv.get(id(a)) if a is not None else None for a in actual]
        pm = w.pslots[pi]
        pa = list(p.patterns)
        okp = len(pa) == len(pm) and all((a is None and b is None) or (b is not None and a is w.pats.get(b)) for a, b in zip(pa, pm))
        if not okp:
            violations.append(_v("pattern_positions_match_model", after=after, detail={"op": i, "project": pi, "n_actual": len(pa), "n_model": len(pm)}))
            inv = {id(x): k for k, x in w.pats.items()}
            w.pslots[pi] = [inv.get(id(a)) if a is not None else None for a in pa]
        for x in pa:
            if x is not None and x.project is not p:
                violations.append(_v("pattern_project_is_project", after=after, detail={"op": i, "project": pi}))
                break


def model_attach(w, pi, key):
    """lowest empty position, else append"""
    slots = w.slots[pi]
    if None in slots:
        slots[slots.index(None)] = key
        return "gap"
    slots.append(key)
    return "end"


def blank_sections(data, which):
    """Replace the module sections at the given positions by a bare SEND."""
    chunks = [(n, p) for _, n, p in chunkio.split(data)]
    out = []
    pos = -1
    i = 0
    # header + patterns: everything before the first SFFF/SEND-only section
    first = next((j for j, (n, _) in enumerate(chunks) if n == b"SFFF"), len(chunks))
    out.extend(chunks[:first])
    i = first
    while i < len(chunks):
        j = i
        while j < len(chunks) and chunks[j][0] != b"SEND":
            j += 1
        pos += 1
        section = chunks[i : j + 1]
        if pos in which and pos > 0:
            out.append((b"SEND", b""))
        else:
            out.extend(section)
        i = j + 1
    return chunkio.join(out)


def reflag_sections(data, which, zero=False):
    """Stored-byte fault on the module records at the given positions: the "exists" bit of the
    SFFF flags word is cleared (or the whole word zeroed), as a foreign writer or a flipped
    stored byte would leave it."""
    import struct

    chunks = [(n, p) for _, n, p in chunkio.split(data)]
    out = []
    pos = -1
    for n, p in chunks:
        if n == b"SFFF":
            pos += 1
            if pos in which and len(p) >= 4:
                (f,) = struct.unpack("<I", p[:4])
                p = struct.pack("<I", 0 if zero else f & ~1) + p[4:]
        elif n == b"SEND" and out and out[-1][0] == b"SEND":
            pos += 1
        out.append((n, p))
    return chunkio.join(out)


def execute(case):
    w = None
    violations = []
    probes = {}
    states = []
    log = []
    interesting = False
    fired_reflag = [0]
    fired_export = [0]
    for i, op in enumerate(case["ops"]):
        k = op["k"]
        if k == "bgload":
            noise.run(op)
            continue
        if k == "setup":
            w = W(2 + op.get("n", 0) % 2, op.get("files", ()))
            if any(None in s_ for s_ in w.slots):
                probes["loaded_project_with_gap"] = probes.get("loaded_project_with_gap", 0) + 1
            log.append((i, "setup", len(w.projects), list(op.get("files", ()))))
            continue
        if w is None:
            w = W(2)
        np_ = len(w.projects)
        pi = op.get("p", 0) % np_
        p = w.projects[pi]
        before = ownership_snapshot(w)
        outcome = "ok"
        after = k
        try:
            if k == "new":
                key = w.key()
                w.mods[key] = builder.TYPES[op["t"] % len(builder.TYPES)]()
                w.mowner[key] = None
            elif k == "newpat":
                key = w.key()
                w.pats[key] = Pattern(lines=1 + op.get("l", 1) % 4, tracks=1 + op.get("t", 1) % 3)
                w.powner[key] = None
            elif k == "new_module":
                cls = builder.TYPES[op["t"] % len(builder.TYPES)]
                m = p.new_module(cls)
                key = w.key()
                w.mods[key] = m
                w.mowner[key] = pi
                where = model_attach(w, pi, key)
                if where == "gap":
                    probes["attach_filled_gap"] = probes.get("attach_filled_gap", 0) + 1
                    interesting = True
            elif k in ("attach", "iadd"):
                keys = sorted(w.mods)
                cand = [kk for kk in keys if kk[0] != "out"]
                if not cand:
                    log.append((i, k, "skip"))
                    continue
                # bias the selection by the op's wish: free / own / foreign
                wish = op.get("wish", 0) % 3
                pools = [
                    [kk for kk in cand if w.mowner[kk] is None],
                    [kk for kk in cand if w.mowner[kk] == pi],
                    [kk for kk in cand if w.mowner[kk] not in (None, pi)],
                ]
                pool = pools[wish] or cand
                key = pool[op["m"] % len(pool)]
                m = w.mods[key]
                owner = w.mowner[key]
                after = "%s:%s" % (k, "free" if owner is None else "own" if owner == pi else "foreign")
                expect_refuse = owner is not None and owner != pi
                try:
                    if k == "attach":
                        r = p.attach_module(m)
                        if r is not m:  # API convenience, not part of the statement: a probe, not an oracle
                            probes["attach_module_did_not_return_module"] = probes.get("attach_module_did_not_return_module", 0) + 1
                    else:
                        p += m
                        if p is not w.projects[pi]:
                            probes["iadd_did_not_return_project"] = probes.get("iadd_did_not_return_project", 0) + 1
                            p = w.projects[pi]
                    refused = False
                except rv.errors.ModuleOwnershipError:
                    refused = True
                if expect_refuse:
                    interesting = True
                    probes["foreign_module_attach"] = probes.get("foreign_module_attach", 0) + 1
                    if not refused:
                        violations.append(_v("foreign_attach_refused", after=after, detail={"op": i}))
                    if ownership_snapshot(w) != before:
                        violations.append(_v("refusal_changes_nothing", after=after, detail={"op": i}))
                else:
                    if refused:
                        violations.append(_v("legal_attach_refused", after=after, detail={"op": i}))
                    elif owner is None:
                        where = model_attach(w, pi, key)
                        w.mowner[key] = pi
                        if where == "gap":
                            probes["attach_filled_gap"] = probes.get("attach_filled_gap", 0) + 1
                            interesting = True
                    else:
                        probes["double_attach"] = probes.get("double_attach", 0) + 1
                        if ownership_snapshot(w) != before:
                            violations.append(_v("double_attach_is_noop", after=after, detail={"op": i}))
                outcome = "refused" if refused else "ok"
            elif k == "iadd_list":
                # p += [free module, new pattern, free module]
                free = [kk for kk in sorted(w.mods) if w.mowner[kk] is None]
                items = []
                for j in range(op.get("n", 2) % 4):
                    if j % 2 == 0 and free:
                        items.append(("m", free.pop(op["m"] % len(free))))
                    else:
                        key = w.key()
                        w.pats[key] = Pattern(lines=2, tracks=2)
                        w.powner[key] = None
                        items.append(("p", key))
                # the same object may be listed twice in one list: the second mention is a no-op
                if op.get("dup") and items:
                    first_m = next((it for it in items if it[0] == "m"), None)
                    if first_m is not None:
                        items.append(first_m)
                        probes["iadd_list_with_repeated_module"] = probes.get("iadd_list_with_repeated_module", 0) + 1
                p += [w.mods[kk] if t == "m" else w.pats[kk] for t, kk in items]
                done_m = set()
                for t, kk in items:
                    if t == "m":
                        if kk in done_m:
                            continue
                        done_m.add(kk)
                        model_attach(w, pi, kk)
                        w.mowner[kk] = pi
                    else:
                        w.pslots[pi].append(kk)
                        w.powner[kk] = pi
            elif k == "attach_pattern":
                kind = op.get("kind", 0) % 4
                if kind == 0:
                    key = w.key()
                    w.pats[key] = Pattern(lines=1 + op.get("l", 1) % 4, tracks=1 + op.get("t", 1) % 3)
                    w.powner[key] = None
                    idx = p.attach_pattern(w.pats[key])
                    w.pslots[pi].append(key)
                    w.powner[key] = pi
                    if idx != len(w.pslots[pi]) - 1:
                        probes["attach_pattern_did_not_return_index"] = probes.get("attach_pattern_did_not_return_index", 0) + 1
                elif kind == 1:
                    p.attach_pattern(None)
                    w.pslots[pi].append(None)
                elif kind == 2:
                    srcs = [j for j, kk in enumerate(w.pslots[pi]) if kk is not None and isinstance(w.pats[kk], Pattern)]
                    if srcs:
                        key = w.key()
                        w.pats[key] = PatternClone(source=srcs[op.get("src", 0) % len(srcs)])
                        w.powner[key] = None
                        p.attach_pattern(w.pats[key])
                        w.pslots[pi].append(key)
                        w.powner[key] = pi
                else:
                    foreign = [kk for kk in sorted(w.pats) if w.powner[kk] not in (None, pi)]
                    if foreign:
                        key = foreign[op.get("src", 0) % len(foreign)]
                        after = "attach_pattern:foreign"
                        interesting = True
                        probes["foreign_pattern_attach"] = probes.get("foreign_pattern_attach", 0) + 1
                        try:
                            p.attach_pattern(w.pats[key])
                            refused = False
                        except rv.errors.PatternOwnershipError:
                            refused = True
                        if not refused:
                            violations.append(_v("foreign_attach_refused", after=after, detail={"op": i}))
                        if ownership_snapshot(w) != before:
                            violations.append(_v("refusal_changes_nothing", after=after, detail={"op": i}))
                        # resync in case it was (wrongly) attached
                        outcome = "refused" if refused else "ok"
            elif k == "note_mod":
                pats = [w.pats[kk] for kk in w.pslots[pi] if kk is not None and isinstance(w.pats[kk], Pattern)]
                if not pats:
                    log.append((i, k, "skip"))
                    continue
                pat = pats[op.get("pat", 0) % len(pats)]
                note = pat.data[op.get("l", 0) % pat.lines][op.get("t", 0) % pat.tracks]
                mode = op.get("mode", 0) % 3
                if mode == 0:  # read for an arbitrary module number
                    n = len(p.modules)
                    gaps = [j + 1 for j, m in enumerate(p.modules) if m is None]
                    cands = [0, 1, n, n + 1, n + 5, 1 + op.get("num", 0) % (n + 1), 0x100, 0x101, 0x102, 0x100 + n, 0xFFFF, 0x8001, 0x100 * (1 + op.get("num", 0) % 200) + 1 + op.get("num", 0) % (n + 1)]
                    if gaps:
                        cands += [gaps[0], gaps[-1], gaps[op.get("num", 0) % len(gaps)]]
                    num = cands[op.get("sel", 0) % len(cands)]
                    note.module = num
                    got = note.mod
                    want = None
                    if num != 0 and num - 1 < n:
                        want = p.modules[num - 1]
                    if got is not want:
                        cls = "zero" if num == 0 else "beyond" if num - 1 >= n else "gap" if want is None else "module"
                        violations.append(_v("note_mod_resolves", after="note_mod_get:" + cls, detail={"op": i, "num": num, "n": n}))
                    if num - 1 < n and num != 0 and want is None:
                        probes["note_mod_at_gap"] = probes.get("note_mod_at_gap", 0) + 1
                elif mode == 1:  # set to an attached module of this project
                    own = [kk for kk in w.slots[pi] if kk is not None]
                    if not own:
                        log.append((i, k, "note_mod_set", "skip", 0))
                        continue
                    key = own[op.get("m", 0) % len(own)]
                    note.mod = w.mods[key]
                    if note.module != w.mods[key].index + 1 or note.mod is not w.mods[key]:
                        violations.append(_v("note_mod_resolves", after="note_mod_set", detail={"op": i}))
                else:  # set to a free module: refused
                    free = [kk for kk in sorted(w.mods) if w.mowner[kk] is None]
                    if free:
                        old = note.module
                        try:
                            note.mod = w.mods[free[op.get("m", 0) % len(free)]]
                            # the statement is silent about free modules: a probe, not an oracle
                            probes["note_mod_accepts_free_module"] = probes.get("note_mod_accepts_free_module", 0) + 1
                            note.module = old
                        except rv.errors.ModuleOwnershipError:
                            if note.module != old:
                                violations.append(_v("refusal_changes_nothing", after="note_mod_set_free", detail={"op": i}))
            elif k == "bulk_new":
                # a large project: several hundred attaches in a row
                for j in range(op.get("n", 260)):
                    cls = builder.SIMPLE_TYPES[(op.get("t", 0) + j) % len(builder.SIMPLE_TYPES)]
                    m = p.new_module(cls)
                    key = w.key()
                    w.mods[key] = m
                    w.mowner[key] = pi
                    model_attach(w, pi, key)
                probes["project_with_more_than_256_positions"] = probes.get("project_with_more_than_256_positions", 0) + (1 if len(p.modules) > 256 else 0)
            elif k == "twin_meta":
                # a MetaModule with a few embedded modules, and a clone of it, in the same project
                from rv.modules.metamodule import MetaModule

                mm = p.new_module(MetaModule)
                key = w.key()
                w.mods[key] = mm
                w.mowner[key] = pi
                model_attach(w, pi, key)
                for j in range(1 + op.get("n", 1) % 3):
                    mm.project.new_module(builder.SIMPLE_TYPES[(op.get("t", 0) + j * 5) % len(builder.SIMPLE_TYPES)])
                c = mm.clone()
                p.attach_module(c)
                key = w.key()
                w.mods[key] = c
                w.mowner[key] = pi
                model_attach(w, pi, key)
                probes["twin_metamodules"] = probes.get("twin_metamodules", 0) + 1
            elif k == "wrap":
                # the project becomes the embedded project of a MetaModule (with some user
                # controller mappings); it is still a project and the same rules apply to it
                from rv.modules.metamodule import MetaModule

                if getattr(p, "metamodule", None) is None:
                    mm = MetaModule(project=p)
                    w.wrappers.append(mm)
                    probes["project_wrapped_in_metamodule"] = probes.get("project_wrapped_in_metamodule", 0) + 1
                mm = p.metamodule
                v = op.get("v", 0)
                for j in range(1 + v % 4):
                    mp = mm.mappings.values[(v >> 3) % 8 + j]
                    mp.module = (v >> (8 + 5 * j)) % (len(p.modules) + 2)
                    mp.controller = (v >> (30 + 3 * j)) % 6
                after = "wrap"
            elif k == "export":
                # an attached module is exported as a .sunsynth while it stays where it is: Synth(module).write_to()
                # completes, is cut short by a write fault, or its chunks() writer is abandoned half way.
                # Nothing about ownership may change (checked by the invariants and by the model below)
                from rv.synth import Synth
                from ..simio import SimFile, SimCancel

                own = [kk for kk in w.slots[pi] if kk is not None and kk[0] != "out"]
                if not own:
                    log.append((i, k, "export", "skip", 0))
                    continue
                m = w.mods[own[op.get("m", 0) % len(own)]]
                before_o = ownership_snapshot(w)
                syn = Synth(m)
                mode = op.get("mode", 0) % 3
                after = "export:" + ("complete", "write_fault", "abandoned")[mode]
                if mode == 2:
                    gen = syn.chunks()
                    for _ in range(1 + op.get("at", 0) % 60):
                        if next(gen, None) is None:
                            break
                    if op.get("close"):
                        gen.close()
                    del gen
                else:
                    faults = [] if mode == 0 else [{"kind": ("write_eio", "write_enospc", "write_cancel")[op.get("at", 0) % 3], "at": op.get("at", 0) % 150}]
                    ctx = Ctx(faults)
                    out_ = SimFile(ctx, 0, b"", "arg", "w")
                    ctx.streams.append(out_)
                    try:
                        syn.write_to(out_)
                    except (OSError, SimCancel):
                        if not ctx.fired:
                            raise
                    if ctx.fired:
                        fired_export[0] += 1
                del syn
                probes["module_exported_while_attached"] = probes.get("module_exported_while_attached", 0) + 1
                if ownership_snapshot(w) != before_o:
                    violations.append(_v("export_changes_nothing", after=after, detail={"op": i}))
            elif k == "save_load":
                interesting = True
                types_before = [type(m).__name__ if m is not None else None for m in p.modules]
                pats_before = [None if x is None else type(x).__name__ for x in p.patterns]
                data = p.read()
                blank = set()
                if op.get("gaps"):
                    linked = set()
                    for m in p.modules:
                        if m is None:
                            continue
                        if any(x >= 0 for x in m.in_links) or any(x >= 0 for x in m.out_links):
                            linked.add(m.index)
                    for j in range(1, len(p.modules)):
                        if j not in linked and (op["gaps"] >> (j % 30)) & 1:
                            blank.add(j)
                    if blank:
                        data = blank_sections(data, blank)
                        probes["restart_from_file_with_blanked_sections"] = probes.get("restart_from_file_with_blanked_sections", 0) + 1
                reflagged = set()
                if op.get("reflag"):
                    reflagged = {j for j in range(len(p.modules)) if p.modules[j] is not None and j not in blank and (op["reflag"] >> (j % 12)) & 1}
                    if reflagged:
                        data = reflag_sections(data, reflagged, zero=bool(op.get("zero")))
                        probes["restart_from_file_with_cleared_exists_flags"] = probes.get("restart_from_file_with_cleared_exists_flags", 0) + 1
                        fired_reflag[0] += 1
                ctx = Ctx(())
                with active(ctx):
                    loaded = read_sunvox_file(ctx.new_stream(data, "arg"))
                env.LOG.take()
                want = [None if j in blank else t for j, t in enumerate(types_before)]
                while want and want[-1] is None:
                    want.pop()
                got = [type(m).__name__ if m is not None else None for m in loaded.modules]
                if reflagged:
                    # which of the re-flagged records a loader keeps is not C14's business (position 0
                    # is: the invariants below demand the output module there); the others must stay put
                    n_ = max(len(want), len(got))
                    want = [x for j, x in enumerate(want + [None] * (n_ - len(want))) if j not in reflagged]
                    got = [x for j, x in enumerate(got + [None] * (n_ - len(got))) if j not in reflagged]
                if got != want:
                    violations.append(_v("positions_preserved_by_load", after="save_load", detail={"op": i, "want": want[:12], "got": got[:12]}))
                gotp = [None if x is None else type(x).__name__ for x in loaded.patterns]
                if gotp != pats_before:
                    violations.append(_v("pattern_positions_preserved_by_load", after="save_load", detail={"op": i}))
                # restart: the actor drops the old objects and continues on the loaded ones
                # ... except, sometimes, for a couple of stale module handles: the project object they belong
                # to is let go, the handles are not - such a module is still owned by (what is still) another
                # project, so attaching it elsewhere stays refused
                olds = sorted(kk for kk, o in w.mowner.items() if o == pi and kk[0] != "out")
                keep = set()
                if op.get("keep") and olds:
                    for j in range(min(2, len(olds))):
                        keep.add(olds[(op["keep"] + 7 * j) % len(olds)])
                    probes["stale_module_handles_kept"] = probes.get("stale_module_handles_kept", 0) + len(keep)
                for kk in [kk for kk, o in w.mowner.items() if o == pi]:
                    if kk in keep:
                        w.mowner[kk] = "gone"
                        continue
                    del w.mods[kk]
                    del w.mowner[kk]
                for kk in [kk for kk, o in w.powner.items() if o == pi]:
                    del w.pats[kk]
                    del w.powner[kk]
                w.projects[pi] = loaded
                slots = []
                for m in loaded.modules:
                    if m is None:
                        slots.append(None)
                    else:
                        key = w.key()
                        w.mods[key] = m
                        w.mowner[key] = pi
                        slots.append(key)
                w.slots[pi] = slots
                ps = []
                for x in loaded.patterns:
                    if x is None:
                        ps.append(None)
                    else:
                        key = w.key()
                        w.pats[key] = x
                        w.powner[key] = pi
                        ps.append(key)
                w.pslots[pi] = ps
                if None in slots:
                    probes["loaded_project_with_gap"] = probes.get("loaded_project_with_gap", 0) + 1
                del p, loaded
                # when the collector runs is a schedule the simulator decides: here, right after the old
                # project object was let go
                import gc

                gc.collect()
                p = w.projects[pi]
            else:
                raise ValueError(op)
        except (KeyboardInterrupt, HarnessTimeout):
            raise
        except rv.errors.RadiantVoicesError as e:
            outcome = "refused:" + type(e).__name__
            violations.append(_v("unexpected_refusal", after=after, exc=type(e).__name__, detail={"op": i}))
        except Exception as e:
            if not env.raised_in_rv(e):
                raise  # a harness bug is never a verdict
            outcome = "error:" + type(e).__name__
            violations.append(_v("unexpected_exception", after=after, exc=type(e).__name__, detail={"op": i, "msg": str(e)[:120]}))
        try:
            check_invariants(w, violations, i, after)
        except Exception as e:
            if not env.raised_in_rv(e):
                raise
            violations.append(_v("unexpected_exception", after="invariant_check", exc=type(e).__name__, detail={"op": i}))
        st = seeds.h64([[type(w.mods.get(kk)).__name__ if kk else None for kk in s] for s in w.slots], [[bool(kk) for kk in s] for s in w.pslots])
        states.append(st)
        log.append((i, k, after, outcome, st))
    return {
        "violations": violations,
        "fired": {"refused_foreign_attach": probes.get("foreign_module_attach", 0) + probes.get("foreign_pattern_attach", 0), "restart": sum(1 for x in log if x[1] == "save_load"), "stored_flag_bytes_cleared": fired_reflag[0], "synth_export_write_fault": fired_export[0]},
        "probes": probes,
        "nontrivial": [seeds.h64(case["ops"])] if interesting else [],
        "states": states,
        "digest": seeds.digest(log),
        "outcome": log[-2:],
        "steps": len(case["ops"]),
    }


def generate(seed, i, tier="quick"):
    r = seeds.rng(seed, "c14hist", i)
    ops = [{"k": "setup", "n": r.randrange(2), "files": [r.choice([None, None, r.randrange(6)]) for _ in range(3)]}]
    kinds = ["wrap", "twin_meta", "new", "new", "new_module", "new_module", "attach", "attach", "attach", "iadd", "iadd_list", "attach_pattern", "attach_pattern", "note_mod", "note_mod", "save_load", "newpat", "export"]
    for _ in range(r.randint(5, 40)):
        k = r.choice(kinds)
        op = {"k": k, "p": r.randrange(3)}
        if k in ("new", "new_module"):
            op["t"] = r.randrange(1000)
        elif k in ("attach", "iadd"):
            op["m"] = r.randrange(1000)
            op["wish"] = r.randrange(3)
        elif k == "iadd_list":
            op["n"] = r.randrange(4)
            op["m"] = r.randrange(1000)
            op["dup"] = r.random() < 0.4
        elif k == "attach_pattern":
            op.update(kind=r.randrange(4), l=r.randrange(4), t=r.randrange(3), src=r.randrange(100))
        elif k == "newpat":
            op.update(l=r.randrange(4), t=r.randrange(3))
        elif k == "note_mod":
            op.update(pat=r.randrange(100), l=r.randrange(8), t=r.randrange(8), mode=r.choice([0, 0, 0, 1, 2]), sel=r.randrange(52), num=r.randrange(1000), m=r.randrange(1000))
        elif k == "export":
            op.update(m=r.randrange(1000), mode=r.randrange(3), at=r.choice([0, 1, 2, 5, 7, 10, 20, r.randrange(150)]), close=r.random() < 0.5)
        elif k == "save_load":
            op["gaps"] = r.getrandbits(30) if r.random() < 0.6 else 0
            if r.random() < 0.4:
                op["keep"] = r.randrange(1, 1000)
            if r.random() < 0.25:
                op["reflag"] = r.getrandbits(12) | (1 if r.random() < 0.5 else 0)
                op["zero"] = r.random() < 0.3
        elif k == "wrap":
            op["v"] = r.getrandbits(50)
        elif k == "twin_meta":
            op.update(n=r.randrange(3), t=r.randrange(1000))
        ops.append(op)
    if r.random() < 0.03:
        # swarm: sizes - a few runs grow one project past 256 positions
        ops.insert(r.randint(1, len(ops)), {"k": "bulk_new", "p": r.randrange(3), "n": r.choice([250, 257, 300]), "t": r.randrange(1000)})
    noise.sprinkle(r, ops)
    return {"property": PROPERTY, "world": "owner", "ops": ops}


def plan(tier, seed):
    n = 12000 if tier == "quick" else 600000
    per = 300
    return [{"kind": "seeded", "seed": seed, "first": i, "count": min(per, n - i), "tier": tier} for i in range(0, n, per)]


def run_unit(unit):
    acc = Acc()
    for i in range(unit["first"], unit["first"] + unit["count"]):
        acc.run(execute, generate(unit["seed"], i, unit.get("tier", "quick")))
    return acc.to_dict()
