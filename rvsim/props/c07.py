"""C07 - connecting and disconnecting keep the link tables mutually consistent.

World `links`: two projects (two parties) of 2-7 modules; a seeded history of
connect/disconnect requests in every operand form the API accepts (method call, >>,
<<, chains through ModuleList, ~m, lists, repeated members, self pairs, links to the
output, operands owned by the *other* project).  Reference model: a set of directed
edges per project, updated from the request's denotation (from x to pairs; a pair with
~ on either side is a disconnect).  Oracle after every op.
"""
from .. import builder, env, seeds, noise  # noqa: F401
from ..runner import Acc
from ..simio import HarnessTimeout

import rv.errors
from rv.project import Project

PROPERTY = "C07"
LEVEL = "exploration"
BUDGET_S = {"quick": 60, "thorough": 3600}
RULE = (
    "one evaluation = one seeded history of 1-25 connect/disconnect requests over two projects of 2-7 modules, every "
    "operand form (call, >>, <<, ModuleList chains, ~, lists, repeats, self pairs, output, foreign-project operands); "
    "after every request the edge set derived from the link tables is compared with the edge-set model and the four "
    "tables are checked entry by entry for mutual consistency. non-trivial = at least one request changed the model "
    "edge set; distinct = distinct op lists (hash)"
)
STATE_MEASURE = "hash of (edge set of A, edge set of B, slot tables) after each op"
COMPONENTS = {"real": ["rv.project.Project.connect", "rv.modules.module.Module/ModuleList/DisconnectingModule operators"], "stub": []}
ASSUMPTIONS = [
    "request semantics from the docstrings: the request denotes from x to pairs; ~ on either side of a pair = disconnect",
    "slot *positions* are not prescribed, only consistency",
    "for a list request that contains a foreign-project member, local pairs may or may not have been applied before the refusal",
]


def edges_of(project):
    out = []
    for m in project.modules:
        if m is None:
            continue
        for s in m.in_links:
            if s >= 0:
                out.append((s, m.index))
    return out


def consistency_errors(project):
    """Entry-by-entry agreement of the four tables (the property's second sentence)."""
    errs = []
    mods = project.modules
    for m in mods:
        if m is None:
            continue
        if len(m.in_links) != len(m.in_link_slots):
            errs.append(("in_len", m.index))
        if len(m.out_links) != len(m.out_link_slots):
            errs.append(("out_len", m.index))
        for i, (s, j) in enumerate(zip(m.in_links, m.in_link_slots)):
            if (s == -1) != (j == -1):
                errs.append(("in_minus1_mismatch", m.index, i))
                continue
            if s == -1:
                continue
            if not (0 <= s < len(mods)) or mods[s] is None:
                errs.append(("in_dangling", m.index, i))
                continue
            src = mods[s]
            if not (0 <= j < len(src.out_links)) or src.out_links[j] != m.index:
                errs.append(("in_not_mirrored", m.index, i))
            elif j >= len(src.out_link_slots) or src.out_link_slots[j] != i:
                errs.append(("in_slot_not_mirrored", m.index, i))
        for j, (d, i) in enumerate(zip(m.out_links, m.out_link_slots)):
            if (d == -1) != (i == -1):
                errs.append(("out_minus1_mismatch", m.index, j))
                continue
            if d == -1:
                continue
            if not (0 <= d < len(mods)) or mods[d] is None:
                errs.append(("out_dangling", m.index, j))
                continue
            dst = mods[d]
            if not (0 <= i < len(dst.in_links)) or dst.in_links[i] != m.index:
                errs.append(("out_not_mirrored", m.index, j))
            elif i >= len(dst.in_link_slots) or dst.in_link_slots[i] != j:
                errs.append(("out_slot_not_mirrored", m.index, j))
    return errs


def tables(project):
    return [(m.index, list(m.in_links), list(m.in_link_slots), list(m.out_links), list(m.out_link_slots)) for m in project.modules if m is not None]


def _v(oracle, **kw):
    d = {"property": PROPERTY, "oracle": oracle}
    d["detail"] = kw.pop("detail", {})
    d.update(kw)
    return d


def check_project(project, model, violations, i, tag, req=None):
    got = edges_of(project)
    gs = set(got)
    req = req or {}
    if len(got) != len(gs):
        dup = sorted(e for e in gs if got.count(e) > 1)
        violations.append(_v("edge_once", detail={"op": i, "project": tag, "dup": dup[:5]}, **req))
    if gs != model:
        missing = sorted(model - gs)
        extra = sorted(gs - model)
        kind = "missing" if missing and not extra else "extra" if extra and not missing else "both"
        violations.append(_v("edge_set", kind=kind, detail={"op": i, "project": tag, "missing": missing[:5], "extra": extra[:5]}, **req))
    errs = consistency_errors(project)
    if errs:
        violations.append(_v("mutual_consistency", what=errs[0][0], detail={"op": i, "project": tag, "errs": errs[:5]}, **req))


def execute(case):
    projects = [Project(), Project()]
    models = [set(), set()]
    violations = []
    probes = {}
    states = []
    log = []
    changed_any = False
    for i, op in enumerate(case["ops"]):
        k = op["k"]
        if k == "bgload":
            noise.run(op)
            continue
        if k == "setup":
            for pi, n in enumerate((op.get("na", 3), op.get("nb", 2))):
                for j in range(n):
                    projects[pi].new_module(builder.SIMPLE_TYPES[(op.get("t", 0) + j * 7 + pi) % len(builder.SIMPLE_TYPES)])
            log.append((i, "setup"))
            continue
        if k == "mod":
            pi = op.get("p", 0) % 2
            projects[pi].new_module(builder.SIMPLE_TYPES[op.get("t", 0) % len(builder.SIMPLE_TYPES)])
            log.append((i, "mod", pi))
            continue
        if k == "ctl":
            # an ordinary controller write (for a MultiCtl: its value, which propagates along its
            # outgoing links) between link requests: it must not touch any link table
            pi = op.get("p", 0) % 2
            mods_ = [m for m in projects[pi].modules if m is not None]
            m = mods_[op.get("m", 0) % len(mods_)]
            before_t = tables(projects[pi])
            try:
                if type(m).__name__ == "MultiCtl" and op.get("v", 0) % 3 != 2:
                    if op.get("v", 0) % 3 == 0:
                        m.value = (op.get("v", 0) >> 2) % 32769
                    else:
                        m.reflect((op.get("v", 0) >> 2) % 4)
                else:
                    names = [n for n, c in m.controllers.items() if c.attached(m)]
                    if names:
                        builder.set_controller(m, names[(op.get("v", 0) >> 2) % len(names)], op.get("v", 0) >> 9)
            except (KeyboardInterrupt, HarnessTimeout):
                raise
            except Exception as e:
                if not env.raised_in_rv(e):
                    raise
            probes["controller_write_between_requests"] = probes.get("controller_write_between_requests", 0) + 1
            if tables(projects[pi]) != before_t:
                violations.append(_v("controller_write_changed_link_tables", type=type(m).__name__, operands="n/a", request="ctl", detail={"op": i}))
            check_project(projects[pi], models[pi], violations, i, "AB"[pi], {"operands": "n/a", "request": "ctl"})
            log.append((i, "ctl", pi, type(m).__name__))
            continue
        if k == "bad":
            # an operation that does not run to completion (refused / raising call, aborted or abandoned
            # save, raising user callable): the link tables stay what the model says, and so do the
            # ordinary requests that follow
            pi = op.get("p", 0) % 2
            sess = builder.Session(projects[pi], layout=2)
            sess.foreign = projects[1 - pi]
            # (the list form of a request with a foreign operand may legitimately apply the local pairs that
            # precede it - that relaxation belongs to the link op above; here only the single-pair form is used)
            out = sess._bad(dict(op, v=op.get("v", 0) | 8))
            probes["failed_operation_between_requests"] = probes.get("failed_operation_between_requests", 0) + 1
            check_project(projects[pi], models[pi], violations, i, "AB"[pi], {"operands": "n/a", "request": "bad"})
            check_project(projects[1 - pi], models[1 - pi], violations, i, "AB"[1 - pi], {"operands": "n/a", "request": "bad"})
            log.append((i, "bad", pi, out))
            continue
        if k == "reload":
            # the party saves its project, an outside program blanks some unlinked module
            # sections to a bare SEND, and the party reopens the file: a project with empty
            # positions, on which linking (and attaching into the gaps) continues
            from . import c14
            from ..simio import Ctx, active
            from rv.readers.reader import read_sunvox_file

            pi = op.get("p", 0) % 2
            p = projects[pi]
            try:
                data = p.read()
            except Exception as e:
                if not env.raised_in_rv(e):
                    raise
                violations.append(_v("save_raises", exc=type(e).__name__, operands="n/a", request="reload", detail={"op": i, "msg": str(e)[:120]}))
                continue
            linked = {m.index for m in p.modules if m is not None and (any(x >= 0 for x in m.in_links) or any(x >= 0 for x in m.out_links))}
            blank = {j for j in range(1, len(p.modules)) if j not in linked and (op.get("gaps", 0) >> (j % 30)) & 1}
            if blank:
                data = c14.blank_sections(data, blank)
                probes["reload_with_gaps"] = probes.get("reload_with_gaps", 0) + 1
            ctx = Ctx(())
            try:
                with active(ctx):
                    projects[pi] = read_sunvox_file(ctx.new_stream(data, "arg"))
            except (KeyboardInterrupt, HarnessTimeout):
                raise
            except Exception as e:
                if not env.raised_in_rv(e):
                    raise
                violations.append(_v("reload_raises", exc=type(e).__name__, operands="n/a", request="reload", detail={"op": i, "msg": str(e)[:120]}))
                log.append((i, "reload", pi, "error"))
                continue
            env.LOG.take()
            check_project(projects[pi], models[pi], violations, i, "AB"[pi], {"operands": "n/a", "request": "reload"})
            log.append((i, "reload", pi, len(blank)))
            continue
        if k != "link":
            raise ValueError(op)
        pi = op.get("p", 0) % 2
        call, pairs = builder.build_link_request(projects[pi], op, foreign=projects[1 - pi])
        # the receiver of the request: the project whose connect() runs.  For the method
        # form it is the project called; for the operator forms it is the parent of the
        # left-most operand (ModuleList keeps that parent along a chain).
        form = op.get("form", "call")
        if form != "call":
            left = pairs[0][0] if form in ("rshift", "chain_r") else pairs[0][1]
            pi = 0 if left.parent is projects[0] else 1
        proj, other = projects[pi], projects[1 - pi]
        model = models[pi]
        foreign_pairs = [(f, t) for f, t, _ in pairs if f.parent is not proj or t.parent is not proj]
        local_pairs = [(f.index, t.index, d) for f, t, d in pairs if f.parent is proj and t.parent is proj]
        before = [tables(projects[0]), tables(projects[1])]
        multi = len(pairs) > 1
        kinds = {d for _, _, d in pairs}
        req = {"operands": "list" if multi else "single", "request": "mixed" if len(kinds) > 1 else ("disconnect" if True in kinds else "connect")}
        try:
            call()
            outcome = "ok"
        except rv.errors.ModuleOwnershipError:
            outcome = "refused"
        except (KeyboardInterrupt, HarnessTimeout):
            raise
        except BaseException as e:
            if not env.raised_in_rv(e):
                raise  # a harness bug is never a verdict
            outcome = "error:" + type(e).__name__
        if outcome.startswith("error"):
            violations.append(_v("unexpected_exception", exc=outcome[6:], detail={"op": i}, **req))
        if foreign_pairs:
            probes["foreign_request"] = probes.get("foreign_request", 0) + 1
            if outcome != "refused":
                violations.append(_v("cross_project_refused", detail={"op": i, "outcome": outcome}, **req))
            # no edge may involve a foreign module; the other project is untouched
            if tables(other) != before[1 - pi]:
                violations.append(_v("refused_changes_nothing", who="other_project", detail={"op": i}, **req))
            if not multi:
                if tables(proj) != before[pi]:
                    violations.append(_v("refused_changes_nothing", who="own_project", detail={"op": i}, **req))
            else:
                # narrow relaxation: each requested local pair is in its old or its requested state
                got = set(edges_of(proj))
                touched = {(f, t) for f, t, _ in local_pairs}
                for e in (got ^ model):
                    if e not in touched:
                        violations.append(_v("edge_set", kind="untouched_pair_changed", detail={"op": i, "edge": list(e)}, **req))
                        break
                for f, t, d in local_pairs:
                    pass
                models[pi] = model = got if not any(e not in touched for e in (got ^ model)) else model
            errs = consistency_errors(proj) + consistency_errors(other)
            if errs:
                violations.append(_v("mutual_consistency", what=errs[0][0], detail={"op": i, "errs": errs[:5], "after": "refusal"}, **req))
        else:
            old = set(model)
            for f, t, d in local_pairs:
                if d:
                    model.discard((f, t))
                else:
                    model.add((f, t))
            if model != old:
                changed_any = True
                probes["request_changed_edges"] = probes.get("request_changed_edges", 0) + 1
            else:
                probes["request_noop"] = probes.get("request_noop", 0) + 1
            if outcome == "refused":
                violations.append(_v("local_request_refused", detail={"op": i}, **req))
            check_project(proj, model, violations, i, "AB"[pi], req)
            if tables(other) != before[1 - pi]:
                violations.append(_v("other_project_changed", detail={"op": i}, **req))
            # resynchronise the model with reality so that one defect is reported once
            # per request that exhibits it, not on every later op
            models[pi] = model = set(edges_of(proj))
        st = seeds.h64(sorted(models[0]), sorted(models[1]), tables(projects[0]), tables(projects[1]))
        states.append(st)
        log.append((i, "link", pi, op.get("form"), outcome, st))
    return {
        "violations": violations,
        "fired": {"refused_cross_project": probes.get("foreign_request", 0)},
        "probes": probes,
        "nontrivial": [seeds.h64(case["ops"])] if changed_any else [],
        "states": states,
        "digest": seeds.digest(log),
        "outcome": log[-2:],
        "steps": len(case["ops"]),
    }


def generate_hub(r):
    """One source module toggles links to many destinations: long out tables with freed slots."""
    na = r.randint(8, 24)
    ops = [{"k": "setup", "na": na, "nb": 1, "t": r.randrange(1000)}]
    hub = r.randrange(100)
    if r.random() < 0.5:
        # the hub is a MultiCtl (a module whose controllers act on its outgoing links)
        ops.append({"k": "mod", "p": 0, "t": [c.__name__ for c in builder.SIMPLE_TYPES].index("MultiCtl")})
        hub = na + 1
    dests = [r.randrange(100) for _ in range(r.randint(3, 24))]
    for _ in range(r.randint(20, 90)):
        x = r.random()
        d = r.choice(dests)
        if x < 0.55:
            ops.append({"k": "link", "form": r.choice(["call", "rshift"]), "from": [hub], "to": [d], "p": 0})
        elif x < 0.9:
            ops.append({"k": "link", "form": r.choice(["call", "rshift"]), "from": [hub], "to": [d], "neg": 2, "p": 0})
        elif x < 0.93:
            ops.append({"k": "link", "form": "call", "from": [hub], "to": [r.choice(dests) for _ in range(r.randint(2, 5))], "neg": r.getrandbits(6) & ~1, "p": 0})
        elif x < 0.97:
            ops.append({"k": "ctl", "p": 0, "m": hub if r.random() < 0.7 else r.randrange(100), "v": r.getrandbits(40)})
        else:
            ops.append({"k": "link", "form": "lshift", "from": [r.choice(dests)], "to": [hub], "p": 0})
    noise.sprinkle(r, ops)
    return {"property": PROPERTY, "world": "links", "ops": ops}


def generate(seed, i, tier="quick"):
    r = seeds.rng(seed, "c07hist", i)
    if r.random() < 0.12:
        return generate_hub(r)
    ops = [{"k": "setup", "na": r.randint(1, 6), "nb": r.randint(1, 4), "t": r.randrange(1000)}]
    fp = r.choice([0.0, 0.0, 0.05, 0.15])
    reloads = r.random() < 0.3
    for _ in range(r.randint(1, 25)):
        if reloads and r.random() < 0.12:
            ops.append({"k": "reload", "p": 0, "gaps": r.getrandbits(30)})
            continue
        if r.random() < (0.25 if reloads else 0.05):
            ops.append({"k": "mod", "p": 0 if reloads else r.randrange(2), "t": r.randrange(1000)})
            continue
        if r.random() < 0.08:
            ops.append({"k": "ctl", "p": r.randrange(2), "m": r.randrange(100), "v": r.getrandbits(40)})
            continue
        if r.random() < 0.06:
            ops.append(dict(builder.gen_op(r, {"bad": 1}), p=r.randrange(2)))
            continue
        op = builder.gen_link_op(r, foreign_p=fp)
        op["p"] = 0 if r.random() < 0.8 else 1
        ops.append(op)
    noise.sprinkle(r, ops)
    return {"property": PROPERTY, "world": "links", "ops": ops}


def small_exhaustive_cases():
    """All sequences of up to 3 single-pair requests over a 3-module project (output + 2),
    connect or disconnect, by method call: the 'exhaustively for small N' clause, in the
    simulator's own op format."""
    import itertools

    reqs = []
    for f in range(3):
        for t in range(3):
            for neg in (0, 1):
                reqs.append({"k": "link", "form": "call", "from": [f], "to": [t], "neg": neg, "p": 0})
    setup = {"k": "setup", "na": 2, "nb": 1, "t": 0}
    for n in (1, 2, 3):
        for combo in itertools.product(range(len(reqs)), repeat=n):
            yield [setup] + [reqs[c] for c in combo]


def plan(tier, seed):
    n = 40000 if tier == "quick" else 1500000
    per = 1000
    units = [{"kind": "seeded", "seed": seed, "first": i, "count": min(per, n - i), "tier": tier} for i in range(0, n, per)]
    units.insert(0, {"kind": "small", "upto": 2 if tier == "quick" else 3})
    return units


def run_unit(unit):
    acc = Acc()
    if unit["kind"] == "small":
        for ops in small_exhaustive_cases():
            if len(ops) - 1 > unit["upto"]:
                break
            case = {"property": PROPERTY, "world": "links", "ops": ops}
            acc.run(execute, case)
        acc.probes["small_scope_sequences_complete_upto_%d" % unit["upto"]] += 1
        return acc.to_dict()
    for i in range(unit["first"], unit["first"] + unit["count"]):
        case = generate(unit["seed"], i, unit.get("tier", "quick"))
        acc.run(execute, case)
    return acc.to_dict()


def shrink_candidates(case):
    ops = case["ops"]
    for i, op in enumerate(ops):
        if op["k"] == "setup":
            for key in ("na", "nb"):
                if op.get(key, 0) > 1:
                    yield dict(case, ops=ops[:i] + [dict(op, **{key: op[key] - 1})] + ops[i + 1 :])
        if op["k"] == "link":
            if op.get("form") != "call" and not op.get("form", "").startswith("chain"):
                yield dict(case, ops=ops[:i] + [dict(op, form="call")] + ops[i + 1 :])
            for key in ("from", "to"):
                if len(op[key]) > 1:
                    for j in range(len(op[key])):
                        yield dict(case, ops=ops[:i] + [dict(op, **{key: op[key][:j] + op[key][j + 1 :]}, neg=0)] + ops[i + 1 :])
            for key in ("from_list", "to_list"):
                if op.get(key):
                    yield dict(case, ops=ops[:i] + [{k: v for k, v in op.items() if k != key}] + ops[i + 1 :])
