"""C05 - re-saving is stable (load/save idempotent) and saving is pure.

World `cycles`: files on the SimDisk (52 fixtures, library-generated projects, and
variants of both whose value-bearing payloads - CVAL, options/other CHDT, SLNK/SLnK,
PDTA, CMID - were rewritten with arbitrary values by "another program") go through
n >= 1 load/save cycles; saves run against a SimFile writer that can fail at any write
call (EIO, ENOSPC, cancellation, short write); two actors' suspended chunks() writers
are advanced alternately under a seeded schedule.
"""
from .. import builder, chunkio, env, files, seeds, simio, snapshot, noise  # noqa: F401
from ..runner import Acc
from ..simio import Ctx, HarnessTimeout, SimCancel, active

from rv.lib.iff import write_chunk
from rv.readers.reader import read_sunvox_file

PROPERTY = "C05"
LEVEL = "exploration"
BUDGET_S = {"quick": 75, "thorough": 3600}
RULE = (
    "one evaluation = one history on one file: load X, save (Y1), then n in 1..6 cycles Y(k+1) = save(load(Yk)) compared "
    "byte for byte, with purity checks around every save (snapshot before == after, two saves identical), saves aborted "
    "by an injected write fault at a seeded write-call index (object unchanged, next clean save identical), and "
    "suspended chunks() writers of two objects advanced alternately. X ranges over all fixtures, generated projects and "
    "seeded perturbations of their CVAL / CHDT / SLNK / SLnK / PDTA / CMID payloads; perturbed files the library refuses "
    "to load are outside the property's domain and are counted as skipped. non-trivial = X loaded and at least one "
    "cycle or faulted save ran; distinct = distinct (file spec, op list) hashes"
)
STATE_MEASURE = "hash of the saved bytes Yk at each cycle"
COMPONENTS = {
    "real": ["rv reader stack", "Container.write_to / write_chunk", "Project.chunks / Synth.chunks / Module.iff_chunks generators"],
    "stub": ["SimFile reader and writer (write faults by call index)", "chunk stream rewriter (stored-value perturbation)", "scheduler stepping suspended chunks() generators"],
}
ASSUMPTIONS = [
    "an aborted or cancelled save counts as 'saving' for the purity clause",
    "perturbations keep the chunk structure well-formed; only payload bytes change",
    "stored-byte changes in pattern dimension fields (PCHN/PLIN) are excluded: they size an allocation of up to 2**32 rows",
]

CVAL_VALUES = [-1, 0x7FFFFFFF, -0x80000000, 257, 300, 1000, 32769, 40000, 70000, -5, -129, 129, 256, 513, 1025]
PAYLOAD_IDS = ["CHDT", "CHDT", "SLNK", "SLnK", "PDTA", "PDTA", "CMID", "SMII", "SFFF", "SVPR", "SCOL", "CHFF", "CHFR",
               "SSCL", "SFIN", "SREL", "SXXX", "SYYY", "SZZZ", "SMIC", "SMIB", "SMIP", "SFGS", "FLGS", "BPM", "SPED", "GVOL", "LGEN", "TIME", "REPS", "PFFF", "PFLG", "PYSZ", "PXXX", "PFGC"]


def _v(oracle, **kw):
    d = {"property": PROPERTY, "oracle": oracle}
    d["detail"] = kw.pop("detail", {})
    d.update(kw)
    return d


def load(data):
    ctx = Ctx(())
    with active(ctx):
        obj = read_sunvox_file(ctx.new_stream(data, "arg"))
    env.LOG.take()
    return obj


def save(obj, faults=()):
    """-> (bytes written so far, exception or None, number of write calls)"""
    ctx = Ctx(faults)
    f = ctx.new_stream(b"", "arg", mode="w")
    exc = None
    with active(ctx):
        try:
            obj.write_to(f)
        except (KeyboardInterrupt, HarnessTimeout):
            raise
        except BaseException as e:
            exc = e
    return f.getvalue(), exc, f.counts["write"], ctx


def all_projects(obj, depth=0):
    """The project and every project embedded in it (MetaModules, also inside Sampler effects)."""
    if depth > 6 or obj is None:
        return
    t = type(obj).__name__
    if t == "Project":
        yield obj
        for m in obj.modules:
            if m is not None:
                yield from all_projects(m, depth + 1)
    elif t == "Synth":
        yield from all_projects(obj.module, depth + 1)
    elif t == "MetaModule":
        yield from all_projects(obj.project, depth + 1)
    elif t == "Sampler":
        yield from all_projects(obj.effect, depth + 1)


def first_diff_chunk(a, b):
    ca, cb = chunkio.split(a), chunkio.split(b)
    mtype = "header"
    for i in range(max(len(ca), len(cb))):
        x = ca[i] if i < len(ca) else None
        y = cb[i] if i < len(cb) else None
        if x is not None and x[1] == b"STYP":
            mtype = x[2].rstrip(b"\0").decode("utf-8", "replace")
        if x is not None and x[1] == b"SFFF":
            mtype = "Output?"
        if x is None or y is None or x[1:] != y[1:]:
            name = (x or y)[1].decode("latin1").strip()
            if x is not None and y is not None and x[1] != y[1]:
                name = "%s/%s" % (x[1].decode("latin1").strip(), y[1].decode("latin1").strip())
            if x is not None and y is not None and x[1] == y[1] == b"CHDT" and chunkio.is_container(x[2]) and chunkio.is_container(y[2]):
                inner = first_diff_chunk(x[2], y[2])
                return {"chunk": inner["chunk"], "nested": True, "index": i, "type": inner["type"], "a": inner["a"], "b": inner["b"]}
            return {"chunk": name, "nested": False, "index": i, "type": mtype, "a": x[2][:16].hex() if x else None, "b": y[2][:16].hex() if y else None}
    return {"chunk": "?", "nested": False, "index": -1, "type": mtype, "a": None, "b": None}


def ranged_cval_target(spec):
    """If `spec` is a loadable file with exactly one top-level CVAL rewritten, and that CVAL
    belongs to a controller whose value type is a plain range, return a description of the
    target; else None.  (The statement presupposes that files carrying out-of-range values of
    ranged controllers remain loadable: 'even when X carries controller values outside the
    ranges this library knows'.)"""
    from rv.controller import Range

    pert = spec.get("perturb") or []
    if len(pert) != 1 or pert[0][0] != "cval":
        return None
    base_spec = {k: v for k, v in spec.items() if k != "perturb"}
    data = files.materialize(base_spec)
    try:
        base = load(data)
    except Exception:
        return None
    chunks = chunkio.split(data)
    cvals = [i for i, (_, nm, _) in enumerate(chunks) if nm == b"CVAL"]
    if not cvals:
        return None
    target = cvals[pert[0][1] % len(cvals)]
    section = -1
    in_section = False
    j = 0
    for i, (_, nm, _) in enumerate(chunks):
        if nm == b"SFFF":
            section += 1
            in_section = True
            j = 0
        elif nm == b"SEND":
            if not in_section:
                section += 1  # an empty module position
            in_section = False
        elif nm == b"CVAL":
            if i == target:
                break
            j += 1
    if type(base).__name__ == "Synth":
        mod = base.module
    else:
        mod = base.modules[section] if 0 <= section < len(base.modules) else None
    if mod is None or type(mod).__name__ == "MetaModule":
        return None
    keys = [n for n, c in mod.controllers.items() if c.attached(mod)]
    if j >= len(keys):
        return None
    t = mod.controllers[keys[j]].instance_value_type(mod)
    if not isinstance(t, Range):
        return None
    return {"type": type(mod).__name__, "controller": keys[j], "value": pert[0][2]}


def pure_check(before, after, violations, i, when):
    for path, a, b in snapshot.diff(before, after, limit=20):
        violations.append(_v("save_is_pure", when=when, path=snapshot.path_class(path), detail={"op": i, "at": list(path), "before": snapshot.short(a), "after": snapshot.short(b)}))
        break


def execute(case):
    violations = []
    fired = {}
    probes = {}
    skipped = {}
    states = []
    log = []
    obj = None
    Y = None
    label = None
    x_links = "n/a"
    built = False
    nontrivial = False
    for i, op in enumerate(case["ops"]):
        k = op["k"]
        if k == "bgload":
            noise.run(op)
            continue
        try:
            if k == "load":
                label = files.spec_label(op["file"])
                data = files.materialize(op["file"])
                try:
                    obj = load(data)
                except (KeyboardInterrupt, HarnessTimeout):
                    raise
                except BaseException as e:
                    tgt = ranged_cval_target(op["file"])
                    if tgt is not None:
                        violations.append(_v("out_of_range_value_keeps_file_loadable", exc=type(e).__name__, detail={"op": i, "file": label, "target": tgt, "msg": str(e)[:120]}))
                    skipped["unloadable:" + type(e).__name__] = skipped.get("unloadable:" + type(e).__name__, 0) + 1
                    log.append((i, "load", label, "unloadable", type(e).__name__))
                    obj = None
                    break
                if obj is None:
                    skipped["unloadable:None"] = skipped.get("unloadable:None", 0) + 1
                    break
                for key, n in env.LOG.take().items():
                    pass
                from . import c07

                try:
                    projs = list(all_projects(obj))
                    if projs:
                        x_links = "inconsistent" if any(c07.consistency_errors(pp) for pp in projs) else "consistent"
                except Exception:
                    x_links = "inconsistent"
                log.append((i, "load", label, type(obj).__name__, x_links))
            elif k == "build":
                # a *live* object built through the API (never been through the reader)
                sess = builder.Session(layout=case.get("layout", 1))
                r = seeds.rng(op["seed"], "c05build")
                for bop in builder.gen_ops(r, op.get("n", 20), first_mods=r.randint(1, 5)):
                    sess.apply(bop)
                obj = sess.project
                if op.get("synth"):
                    from rv.synth import Synth

                    mods = [m for m in sess.mods() if type(m).__name__ != "Output"]
                    m = mods[op["synth"] % len(mods)]
                    obj = Synth(m)  # the live module itself, not a (normalising) clone
                label = "built:%s" % op["seed"]
                x_links = "consistent"
                built = True
                log.append((i, "build", label, type(obj).__name__))
            elif k == "build_nested":
                # a live project with a MetaModule built INSIDE another MetaModule's project (and a
                # Sampler with an effect): back references that only API-built graphs have
                sess = builder.Session(layout=case.get("layout", 2))
                T = builder.TYPE_NAMES.index
                r = seeds.rng(op.get("seed", 0), "c05nested")
                pre = [{"k": "mod", "t": T("MetaModule")}, {"k": "embed", "m": 0, "op": {"k": "mod", "t": T("MetaModule")}},
                       {"k": "embed", "m": 0, "op": {"k": "embed", "m": 0, "op": {"k": "mod", "t": r.randrange(1000), "any": False}}},
                       {"k": "embed", "m": 0, "op": builder.gen_op(r, {"udscn": 1})}, builder.gen_op(r, {"udscn": 1}),
                       {"k": "mod", "t": T("Sampler")}]
                for bop in pre + [builder.gen_op(r) for _ in range(op.get("n", 8))]:
                    sess.apply(bop)
                obj = sess.project
                if op.get("inner"):
                    # the user saves the embedded project of the first MetaModule on its own
                    obj = next(m for m in sess.mods() if type(m).__name__ == "MetaModule").project
                label = "built_nested:%s" % op.get("seed", 0)
                x_links = "consistent"
                built = True
                log.append((i, "build_nested", label))
            elif k == "build_synth":
                # a live module of the given type with a long name and a few edited slots, wrapped in a Synth
                from rv.synth import Synth

                builder.set_layout(case.get("layout", 2))
                cls = builder.TYPES[op["t"] % len(builder.TYPES)]
                m = cls()
                m.name = builder.text_from(op.get("v", 0) | 40, 40) or "x" * 40
                m.name = (m.name * 3)[:40]
                slots = builder.module_slots(m, None, in_project=False, layout=case.get("layout", 2))
                for j in range(op.get("n", 4)):
                    try:
                        slots[builder.mix(op.get("v", 0), j) % len(slots)][1](builder.mix(op.get("v", 0), j + 50))
                    except Exception as e:
                        if not env.raised_in_rv(e):
                            raise
                obj = Synth(m)
                label = "built_synth:%s" % cls.__name__
                built = True
                log.append((i, "build_synth", label))
            elif obj is None:
                continue
            elif k == "save":
                s0 = snapshot.snapshot(obj)
                Y, exc, nw, _ = save(obj)
                if exc is not None:
                    if op.get("perturbed"):
                        skipped["unsaveable_after_perturbation:" + type(exc).__name__] = skipped.get("unsaveable_after_perturbation:" + type(exc).__name__, 0) + 1
                        obj = None
                        break
                    violations.append(_v("save_raises", exc=type(exc).__name__, detail={"op": i, "file": label, "msg": str(exc)[:120]}))
                    obj = None
                    break
                s1 = snapshot.snapshot(obj)
                pure_check(s0, s1, violations, i, "clean")
                Y2, exc2, _, _ = save(obj)
                if exc2 is not None or Y2 != Y:
                    d = first_diff_chunk(Y, Y2) if exc2 is None else {"chunk": "exception", "type": "?"}
                    violations.append(_v("save_twice_identical", chunk=d["chunk"], detail={"op": i, "file": label, "diff": d}))
                states.append(seeds.h64(Y))
                log.append((i, "save", len(Y), seeds.digest(Y)))
            elif k == "cycle":
                if Y is None:
                    continue
                for c in range(op.get("n", 1)):
                    try:
                        o2 = load(Y)
                    except (KeyboardInterrupt, HarnessTimeout):
                        raise
                    except BaseException as e:
                        violations.append(_v("resaved_file_loadable", exc=type(e).__name__, detail={"op": i, "cycle": c, "file": label, "msg": str(e)[:120]}))
                        break
                    Yn, exc, _, _ = save(o2)
                    if exc is not None:
                        violations.append(_v("save_raises", exc=type(exc).__name__, detail={"op": i, "cycle": c, "file": label}))
                        break
                    nontrivial = True
                    probes["cycles"] = probes.get("cycles", 0) + 1
                    if built:
                        # the bytes of a live, never-loaded object are X itself; Y1 is the
                        # first save of the *loaded* X and stability is demanded from there
                        built = False
                        Y = Yn
                        obj = o2
                        probes["built_object_first_reload"] = probes.get("built_object_first_reload", 0) + 1
                        continue
                    if Yn != Y:
                        d = first_diff_chunk(Y, Yn)
                        violations.append(_v("idempotence", chunk=d["chunk"], x_links=x_links, detail={"op": i, "cycle": c + 1, "file": label, "diff": d, "len": [len(Y), len(Yn)]}))
                        Y = Yn
                        obj = o2
                        states.append(seeds.h64(Y))
                        break  # one drift is the verdict; cycling a growing file on only costs time
                    obj = o2
                log.append((i, "cycle", op.get("n", 1), seeds.digest(Y)))
            elif k == "save_fault":
                if Y is None:
                    continue
                s0 = snapshot.snapshot(obj)
                fault = dict(op["fault"], stream=0)
                _, _, nw, _ = save(obj)
                fault["at"] = fault["at"] % max(nw, 1)
                part, exc, _, ctx = save(obj, [fault])
                for (fk, sid, call, idx) in ctx.fired:
                    fired[fk] = fired.get(fk, 0) + 1
                s1 = snapshot.snapshot(obj)
                when = "aborted:" + fault["kind"]
                pure_check(s0, s1, violations, i, when)
                if fault["kind"] != "write_short":
                    if exc is None:
                        probes["write_fault_swallowed"] = probes.get("write_fault_swallowed", 0) + 1
                    elif not Y.startswith(part):  # not part of the statement: a probe only
                        probes["aborted_save_did_not_write_a_prefix"] = probes.get("aborted_save_did_not_write_a_prefix", 0) + 1
                Yc, exc2, _, _ = save(obj)
                if exc2 is not None or Yc != Y:
                    d = first_diff_chunk(Y, Yc) if exc2 is None else {"chunk": "exception"}
                    violations.append(_v("clean_save_after_aborted_save_identical", when=when, chunk=d["chunk"], detail={"op": i, "file": label}))
                nontrivial = True
                pos = "first" if fault["at"] == 0 else "last" if fault["at"] == nw - 1 else ("header" if fault["at"] % 3 != 2 else "payload")
                states.append(seeds.h64("fault", fault["kind"], pos, type(exc).__name__))
                log.append((i, "save_fault", fault["kind"], fault["at"], type(exc).__name__, len(part)))
            elif k == "refused_save":
                # a plain attribute briefly holds a value that does not fit its binary slot: the save is refused by
                # the packer; the caller puts the old value back.  The object is what it was, and so is its save
                if Y is None:
                    continue
                from rv.synth import Synth as _Synth

                if isinstance(obj, _Synth):
                    mods_ = [obj.module] if obj.module is not None else []
                    proj_ = None
                else:
                    mods_ = [m for m in obj.modules if m is not None]
                    proj_ = obj
                if not mods_:
                    continue
                m_ = mods_[op.get("m", 0) % len(mods_)]
                tg = builder.unencodable_targets(m_, proj_)
                o_, attr, val = tg[op.get("v", 0) % len(tg)]
                if not hasattr(o_, attr):
                    continue
                old_val = getattr(o_, attr)
                try:
                    setattr(o_, attr, val)
                except (KeyboardInterrupt, HarnessTimeout):
                    raise
                except Exception as e_:
                    if not env.raised_in_rv(e_):
                        raise
                    continue  # validated on assignment: nothing unencodable got in
                try:
                    _, exc_, _, _ = save(obj)
                finally:
                    setattr(o_, attr, old_val)
                fired["save_refused_by_packer" if exc_ is not None else "unencodable_value_saved"] = fired.get("save_refused_by_packer" if exc_ is not None else "unencodable_value_saved", 0) + 1
                Yc, exc2, _, _ = save(obj)
                if exc2 is not None or Yc != Y:
                    d = first_diff_chunk(Y, Yc) if exc2 is None else {"chunk": "exception:" + type(exc2).__name__}
                    violations.append(_v("clean_save_after_aborted_save_identical", when="refused:" + attr, chunk=d["chunk"], detail={"op": i, "file": label}))
                Yc2, exc3, _, _ = save(obj)
                if exc3 is not None or Yc2 != Y:
                    violations.append(_v("clean_save_after_aborted_save_identical", when="refused:" + attr + ":second", chunk="?", detail={"op": i, "file": label}))
                nontrivial = True
                states.append(seeds.h64("refused", attr, type(exc_).__name__))
                log.append((i, "refused_save", attr, type(exc_).__name__))
            elif k == "abandon":
                # a save that is started and abandoned: the chunks() generator is advanced `at`
                # chunks and then dropped (closed); the object must be unchanged and still saveable
                if Y is None:
                    continue
                s0 = snapshot.snapshot(obj)
                gen = obj.chunks()
                n = 0
                try:
                    for _ in range(op.get("at", 0)):
                        next(gen)
                        n += 1
                except StopIteration:
                    pass
                gen.close()
                fired["save_abandoned"] = fired.get("save_abandoned", 0) + 1
                s1 = snapshot.snapshot(obj)
                pure_check(s0, s1, violations, i, "abandoned")
                Yc, exc2, _, _ = save(obj)
                if exc2 is not None or Yc != Y:
                    d = first_diff_chunk(Y, Yc) if exc2 is None else {"chunk": "exception:" + type(exc2).__name__}
                    violations.append(_v("clean_save_after_aborted_save_identical", when="abandoned", chunk=d["chunk"], detail={"op": i, "file": label, "at": n}))
                nontrivial = True
                states.append(seeds.h64("abandon", min(n, 40)))
                log.append((i, "abandon", n))
            elif k == "interleave":
                if Y is None:
                    continue
                try:
                    other = load(files.materialize(op["other"]))
                except (KeyboardInterrupt, HarnessTimeout):
                    raise
                except BaseException:
                    continue
                if other is None:
                    continue
                plain_o, exc, _, _ = save(other)
                if exc is not None:
                    continue
                gens = [obj.chunks(), other.chunks()]
                outs = [simio.SimFile(Ctx(()), 0, b"", "arg", "w"), simio.SimFile(Ctx(()), 0, b"", "arg", "w")]
                done = [False, False]
                sched = op.get("schedule", 0)
                step = 0
                order = []
                while not all(done):
                    who = (sched >> (step % 60)) & 1
                    if done[who]:
                        who = 1 - who
                    step += 1
                    try:
                        ch = next(gens[who])
                        write_chunk(outs[who], *ch)
                        order.append(who)
                    except StopIteration:
                        done[who] = True
                got = [outs[0].getvalue(), outs[1].getvalue()]
                if got[0] != Y:
                    d = first_diff_chunk(Y, got[0])
                    violations.append(_v("suspended_writer_equals_plain", chunk=d["chunk"], who="first", detail={"op": i, "file": label}))
                if got[1] != plain_o:
                    d = first_diff_chunk(plain_o, got[1])
                    violations.append(_v("suspended_writer_equals_plain", chunk=d["chunk"], who="second", detail={"op": i, "file": files.spec_label(op["other"])}))
                Yc, _, _, _ = save(obj)
                if Yc != Y:
                    violations.append(_v("clean_save_after_interleaving_identical", detail={"op": i}))
                nontrivial = True
                fired["writer_interleaving"] = fired.get("writer_interleaving", 0) + 1
                states.append(seeds.h64("ilv", order[:8]))
                log.append((i, "interleave", len(order), seeds.digest(order)))
            else:
                raise ValueError(op)
        except (KeyboardInterrupt, HarnessTimeout):
            raise
        except Exception as e:
            if not env.raised_in_rv(e):
                raise
            violations.append(_v("unexpected_exception", after=k, exc=type(e).__name__, detail={"op": i, "file": label, "msg": str(e)[:120]}))
            break
    env.LOG.take()
    return {
        "violations": violations,
        "fired": fired,
        "probes": probes,
        "skipped": skipped,
        "nontrivial": [seeds.h64(case["ops"])] if nontrivial else [],
        "states": states,
        "digest": seeds.digest(log),
        "outcome": log[-2:],
        "steps": len(case["ops"]),
    }


# ---------------------------------------------------------------------------


def base_specs(tier, seed):
    specs = [{"src": "fixture", "name": n} for n in files.fixture_names()]
    n = 30 if tier == "quick" else 300
    specs += [{"src": "gen", "seed": seeds.derive(seed, "c05gen", i) % (1 << 31), "nest": i % 3 == 0, "n": 20, "layout": 2} for i in range(n)]
    return specs


def perturbation(r, data, depth=0):
    if depth < 2 and r.random() < 0.2:
        return ["in", r.randrange(8), perturbation(r, data, depth + 1)]
    if r.random() < 0.06:
        return ["sampler_legacy", r.randrange(4), r.randrange(6)]
    for _ in range(8):
        if r.random() < 0.55:
            v = r.choice(CVAL_VALUES) if r.random() < 0.7 else r.randint(-(1 << 31), (1 << 31) - 1)
            return ["cval", r.randrange(200), v]
        cid = r.choice(PAYLOAD_IDS)
        return ["payload", cid, r.randrange(64), r.randrange(4096), r.choice([0, 1, 0x7F, 0x80, 0xFF, r.randrange(256)])]


def generate_for(spec, r, faulty=True):
    ops = [{"k": "load", "file": spec}, {"k": "save", "perturbed": bool(spec.get("perturb"))}, {"k": "cycle", "n": r.randint(1, 6) if r.random() < 0.3 else 2}]
    if faulty:
        for _ in range(r.randint(0, 2)):
            kind = r.choice(["write_eio", "write_enospc", "write_cancel", "write_short"])
            at = r.choice([0, 1, 2, r.randrange(3000), r.randrange(3000), 10 ** 6 - 1])
            ops.append({"k": "save_fault", "fault": {"kind": kind, "at": at}})
        if r.random() < 0.3:
            ops.append({"k": "abandon", "at": r.choice([0, 1, 2, r.randrange(40), r.randrange(400)])})
        if r.random() < 0.35:
            for _ in range(r.choice((1, 1, 2))):
                ops.append({"k": "refused_save", "m": r.randrange(100), "v": r.randrange(1000)})
        if r.random() < 0.3:
            ops.append({"k": "cycle", "n": 1})
    return ops


def generate(seed, i, tier="quick"):
    r = seeds.rng(seed, "c05hist", i)
    specs = base_specs(tier, seed)
    spec = dict(r.choice(specs))
    if r.random() < 0.75:
        data = files.materialize(spec)
        spec["perturb"] = [perturbation(r, data) for _ in range(r.choice([1, 1, 1, 2, 3]))]
    ops = generate_for(spec, r)
    if r.random() < 0.15:
        ops.append({"k": "interleave", "other": r.choice(specs), "schedule": r.getrandbits(60)})
    if r.random() < 0.12:
        ops[0] = {"k": "build", "seed": r.getrandbits(30), "n": r.randint(5, 40), "synth": r.randrange(1000) if r.random() < 0.3 else 0}
        ops[1] = {"k": "save"}
    elif r.random() < 0.05:
        ops[0] = {"k": "build_nested", "seed": r.getrandbits(30), "n": r.randint(0, 12), "inner": r.random() < 0.5}
        ops[1] = {"k": "save"}
    noise.sprinkle(r, ops)
    return {"property": PROPERTY, "world": "cycles", "layout": 2, "ops": ops}


def plan(tier, seed):
    units = []
    specs = base_specs(tier, seed)
    # every unperturbed file: plain cycles, a sweep of write faults, interleaving with its neighbour
    per = 6 if tier == "quick" else 1
    for j in range(0, len(specs), per):
        units.append({"kind": "plain", "specs": specs[j : j + per], "next": specs[(j + per) % len(specs)], "seed": seed, "tier": tier})
    # files as older versions of SunVox / of this library wrote them: legacy Sampler records
    legacy = [{"src": "fixture", "name": "sampler.sunsynth", "perturb": [["sampler_legacy", 0, v]]} for v in range(6)]
    units.append({"kind": "plain", "specs": legacy, "next": specs[0], "seed": seed, "tier": tier, "perturbed": True})
    units.append({"kind": "built_synths", "seed": seed, "tier": tier})
    for j in range(4 if tier == "quick" else 20):
        units.append({"kind": "built_nested", "seed": seeds.derive(seed, "bn", j) % (1 << 30), "tier": tier, "inner": j % 2 == 1})
    n = 5000 if tier == "quick" else 120000
    chunk = 100
    for i in range(0, n, chunk):
        units.append({"kind": "seeded", "seed": seed, "first": i, "count": min(chunk, n - i), "tier": tier})
    return units


def run_unit(unit):
    acc = Acc()
    if unit["kind"] == "built_synths":
        reps = 1 if unit.get("tier") == "quick" else 12
        for t in range(len(builder.TYPES)):
            for rep in range(reps):
                v = seeds.derive(unit["seed"], "bs", t, rep) >> 2
                ops = [{"k": "build_synth", "t": t, "v": v, "n": 4}, {"k": "save"}, {"k": "cycle", "n": 2},
                       {"k": "save_fault", "fault": {"kind": "write_eio", "at": v % 97}}, {"k": "save_fault", "fault": {"kind": "write_cancel", "at": v % 31}}]
                acc.run(execute, {"property": PROPERTY, "world": "cycles", "layout": 2, "ops": ops})
        return acc.to_dict()
    if unit["kind"] == "built_nested":
        # every write call and every chunk position of a save of an API-built nested graph
        probe = execute({"property": PROPERTY, "world": "cycles", "layout": 2, "ops": [{"k": "build_nested", "seed": unit["seed"]}, {"k": "save"}]})
        from .. import builder as _b

        sess_ops = [{"k": "build_nested", "seed": unit["seed"], "inner": bool(unit.get("inner"))}, {"k": "save"}]
        # number of write calls / chunks: measure on a throw-away build
        case0 = {"property": PROPERTY, "world": "cycles", "layout": 2, "ops": sess_ops + [{"k": "cycle", "n": 2}]}
        acc.run(execute, case0)
        nw = 1200
        step = 1 if unit.get("tier") != "quick" else 3
        for kind in ("write_eio", "write_cancel"):
            ops = list(sess_ops) + [{"k": "save_fault", "fault": {"kind": kind, "at": at}} for at in range(0, nw, step)]
            acc.run(execute, {"property": PROPERTY, "world": "cycles", "layout": 2, "ops": ops}, seconds=300)
        ops = list(sess_ops) + [{"k": "abandon", "at": at} for at in range(0, 400, 1 if unit.get("tier") != "quick" else 2)]
        acc.run(execute, {"property": PROPERTY, "world": "cycles", "layout": 2, "ops": ops}, seconds=300)
        return acc.to_dict()
    if unit["kind"] == "plain":
        for spec in unit["specs"]:
            ops = [{"k": "load", "file": spec}, {"k": "save", "perturbed": bool(unit.get("perturbed"))}, {"k": "cycle", "n": 3}]
            acc.run(execute, {"property": PROPERTY, "world": "cycles", "ops": ops}, isolate=True)
            if unit.get("perturbed"):
                # two objects from such files alive in one process, cycled alternately
                for other in unit["specs"]:
                    ops = [{"k": "load", "file": other}, {"k": "save", "perturbed": True}, {"k": "load", "file": spec}, {"k": "save", "perturbed": True}, {"k": "cycle", "n": 3}]
                    acc.run(execute, {"property": PROPERTY, "world": "cycles", "ops": ops}, isolate=True)
                continue
            # write-fault sweep: every write call of small files, every 5th of larger ones
            data = files.materialize(spec)
            try:
                nw = save(load(data))[2]
            except Exception:
                continue
            # quick: every write call of small files, at most ~120 evenly spread (odd stride, so all
            # three calls of a chunk - id, size, payload - are hit) for larger ones; thorough: every call
            stride = 1 if (nw <= 400 or unit.get("tier") == "thorough") else max(7, (nw // 120) | 1)
            for kind in ("write_eio", "write_cancel", "write_enospc", "write_short"):
                ops = [{"k": "load", "file": spec}, {"k": "save"}]
                ops += [{"k": "save_fault", "fault": {"kind": kind, "at": at}} for at in range(0, nw, stride)]
                acc.run(execute, {"property": PROPERTY, "world": "cycles", "ops": ops}, seconds=300)
            ops = [{"k": "load", "file": spec}, {"k": "save"}]
            r = seeds.rng(unit["seed"], "ilv", files.spec_label(spec))
            ops += [{"k": "interleave", "other": unit["next"], "schedule": r.getrandbits(60)} for _ in range(3)]
            ops += [{"k": "interleave", "other": unit["next"], "schedule": sch} for sch in (0x555555555555555, 0x333333333333333, 0xAAAAAAAAAAAAAAA)]
            ops += [{"k": "interleave", "other": spec, "schedule": r.getrandbits(60)}]
            acc.run(execute, {"property": PROPERTY, "world": "cycles", "ops": ops})
        acc.probes["write_fault_sweep_units"] += 1
    else:
        for i in range(unit["first"], unit["first"] + unit["count"]):
            acc.run(execute, generate(unit["seed"], i, unit.get("tier", "quick")))
    return acc.to_dict()


def shrink_candidates(case):
    ops = case["ops"]
    for i, op in enumerate(ops):
        if op["k"] == "load" and op["file"].get("perturb") and len(op["file"]["perturb"]) > 1:
            for j in range(len(op["file"]["perturb"])):
                pl = op["file"]["perturb"]
                yield dict(case, ops=ops[:i] + [dict(op, file=dict(op["file"], perturb=pl[:j] + pl[j + 1 :]))] + ops[i + 1 :])
        if op["k"] == "cycle" and op.get("n", 1) > 1:
            yield dict(case, ops=ops[:i] + [dict(op, n=1)] + ops[i + 1 :])
