"""C17 - objects are isolated: no hidden shared state between instances or clones.

World `actors`: 2-4 actors each obtain one object independently (construct any type,
clone another actor's object, load the bytes another actor's object saves to, load a
fixture another actor also loaded).  A seeded scheduler interleaves mutations of one
actor's object (every catalogue slot, in-place element writes into list payloads,
links, cells), saves, single steps of suspended chunks() writers and constructions of
further objects.  Oracle: non-interference - after every step by actor a, snapshot and
saved bytes of every other actor's object are unchanged; fresh constructions equal the
pristine reference taken at world start (each history runs in a pristine forked
process); a suspended writer yields the bytes of an uninterrupted save.
"""
from .. import builder, env, files, seeds, simio, snapshot, noise, trash  # noqa: F401
from ..runner import Acc
from ..simio import Ctx, HarnessTimeout, active

import rv.modules as M
from rv.lib.iff import write_chunk
from rv.pattern import Pattern
from rv.project import Project
from rv.readers.reader import read_sunvox_file
from rv.synth import Synth

PROPERTY = "C17"
LEVEL = "exploration"
BUDGET_S = {"quick": 75, "thorough": 3600}
RULE = (
    "one evaluation = one history with 2-4 actors: each obtains an object (new module of any of the 43 types / project / "
    "pattern / synth, clone of another actor's object, load of another actor's saved bytes or of a shared fixture), then "
    "5-40 scheduler steps: mutate one actor's object through any catalogue slot (controllers, options, MIDI bindings, "
    "in-place writes into curves / waveforms / envelopes / mappings / note maps / samples / labels, links, cells, embedded "
    "projects), save it, advance its suspended writer by one chunk, or construct a fresh object; after every step the "
    "snapshot digest and saved-bytes digest of every OTHER actor's object must be unchanged, fresh constructions must "
    "equal the pristine reference, finished suspended writers must equal a plain save. non-trivial = at least one "
    "mutation changed the acting object's own snapshot while another actor was alive; distinct = distinct op lists"
)
STATE_MEASURE = "distinct (kind/type of acting object, how the observed object was obtained, mutated slot class) triples + actor-id sequences of length <= 8"
COMPONENTS = {
    "real": ["all rv object classes and their class-level defaults", "Container.read/clone, Module.clone", "chunks() generators"],
    "stub": ["SimFile for loads", "scheduler stepping suspended writers"],
}
ASSUMPTIONS = [
    "objects of different actors are never linked to each other; a MetaModule and its embedded project, a project and its modules are ONE object graph and belong to one actor",
    "the global strictness flag is shared by design and is C18's subject",
    "observable state = the allow-list snapshot; saved bytes = what write_to produces (free modules are wrapped in a Synth)",
]

KINDS = ["module", "module", "module", "project", "synth", "pattern"]


def file_pool():
    """Files several actors may load: every fixture plus a few generated projects with large
    embedded payloads (sizes are part of the swarm)."""
    pool = [{"src": "fixture", "name": n} for n in files.fixture_names()]
    pool += [{"src": "gen", "seed": 9000 + j, "nest": True, "layout": 2, "big": True, "n": 6} for j in range(3)]
    return pool


def file_bytes(t):
    pool = file_pool()
    return files.materialize(pool[t % len(pool)]), files.spec_label(pool[t % len(pool)])
ALL_TYPES = builder.TYPES


def _v(oracle, **kw):
    d = {"property": PROPERTY, "oracle": oracle}
    d["detail"] = kw.pop("detail", {})
    d.update(kw)
    return d


def obj_bytes(obj):
    if isinstance(obj, (Project, Synth)):
        return obj.read()
    if isinstance(obj, Pattern):
        return b"".join(p + b"|" + d for p, d in obj.iff_chunks())
    return Synth(obj).read()


def obj_digest(obj):
    snap = snapshot.snapshot(obj)
    try:
        b = obj_bytes(obj)
    except (KeyboardInterrupt, HarnessTimeout):
        raise
    except Exception as e:
        b = ("unsaveable:" + type(e).__name__).encode()
    return snap, seeds.digest(b)


def type_of(obj):
    if isinstance(obj, Synth):
        return "Synth(%s)" % type(obj.module).__name__
    return type(obj).__name__


def construct(kind, t):
    if kind == "project":
        return Project()
    if kind == "pattern":
        return Pattern(lines=1 + t % 4, tracks=1 + t % 3)
    cls = ALL_TYPES[t % len(ALL_TYPES)]
    if kind == "synth":
        return Synth(cls())
    return cls()


def load_bytes(data):
    ctx = Ctx(())
    with active(ctx):
        obj = read_sunvox_file(ctx.new_stream(data, "arg"))
    env.LOG.take()
    return obj


def mutate(obj, op, layout=1):
    """-> label of the slot class mutated"""
    builder.set_layout(layout)
    if isinstance(obj, Project):
        out = builder.Session(obj, layout=layout).apply(op["bop"])
        return "project:" + out.split(":")[0] + ":" + (out.split(".", 1)[1] if "." in out else "")[:24]
    if isinstance(obj, Pattern):
        if op["s"] % 3 == 0:
            grid = obj.data  # (index by what the grid really holds: the harness must not trip over a corrupted pattern)
            if not grid or not grid[op["v"] % len(grid)]:
                return "pattern:cell:empty"
            row = grid[op["v"] % len(grid)]
            n = row[(op["v"] >> 8) % len(row)]
            n.vel = (op["v"] >> 16) % 130
            n.ctl = (op["v"] >> 24) & 0xFFFF
            return "pattern:cell"
        slots = builder.pattern_slots(obj)
        label, setter = slots[op["s"] % len(slots)]
        setter(op["v"])
        return "pattern:" + label
    mod = obj.module if isinstance(obj, Synth) else obj
    slots = builder.module_slots(mod, None, in_project=mod.parent is not None, layout=layout)
    # extra in-place writes that bypass every setter (aliasing detectors)
    extra = []
    tname = type(mod).__name__
    if tname == "Sampler":
        def env_inplace(v):
            es = [mod.volume_envelope, mod.panning_envelope, mod.pitch_envelope] + list(mod.effect_control_envelopes)
            e = es[v % len(es)]
            if e.points and (v >> 4) & 1:
                e.points[(v >> 8) % len(e.points)] = ((v >> 12) & 0xFFFF, e.range[0] + ((v >> 30) % (e.range[1] - e.range[0] + 1)))
            else:
                e.points.append(((v >> 12) & 0xFFFF, e.range[0]))

        extra.append(("envelope.points[inplace]", env_inplace))
    if tname == "MetaModule":
        def mapping_inplace(v):
            m = mod.mappings.values[v % 96]
            m.module = (v >> 8) % 3
            m.controller = (v >> 12) % 4

        extra.append(("mappings[inplace]", mapping_inplace))

        def embedded_edit(v):
            sub = builder.Session(mod.project, depth=1, layout=layout)
            sub.apply({"k": "mod", "t": v % 1000, "any": False} if v & 1 else op["bop"])
            sub.apply({"k": "pset", "s": v >> 4, "v": v >> 9})

        extra.append(("project[embedded]", embedded_edit))
        extra.append(("project[embedded]", embedded_edit))
    slots = slots + extra
    label, setter = slots[op["s"] % len(slots)]
    try:
        setter(op["v"])
    except (KeyboardInterrupt, HarnessTimeout):
        raise
    except Exception as e:
        if not env.raised_in_rv(e):
            raise
    return "%s:%s" % ("module", label.split(".")[0] if label.startswith(("ctl.", "opt.")) else label)


def execute(case):
    violations = []
    probes = {}
    states = []
    log = []
    fired = {}
    nontrivial = False
    # pristine reference, taken before anything has been mutated in this (forked, pristine) process
    need = set()
    for op in case["ops"]:
        if op["k"] in ("obtain", "construct_check") and op.get("how", "new") == "new":
            need.add((op.get("kind", "module"), op.get("t", 0) % len(ALL_TYPES) if op.get("kind", "module") in ("module", "synth") else op.get("t", 0) % 12))
    pristine = {}
    for kind, t in sorted(need):
        pristine[(kind, t)] = obj_digest(construct(kind, t))
    # pristine reference of every fixture that a later load_check will compare against
    pristine_file = {}
    for op in case["ops"]:
        if op["k"] in ("load_check", "failed_load"):
            try:
                data_, n = file_bytes(op.get("t", 0))
                if n not in pristine_file:
                    pristine_file[n] = obj_digest(load_bytes(data_))
            except (KeyboardInterrupt, HarnessTimeout):
                raise
            except Exception as e:
                if not env.raised_in_rv(e):
                    raise
                # a valid file does not even load in the pristine process: there is no reference to
                # compare with; report it and stop (it is the library's reaction, not a harness bug)
                return {"violations": [_v("unexpected_exception", after="reference_load", exc=type(e).__name__, detail={"msg": str(e)[:120]})],
                        "fired": {}, "probes": {}, "nontrivial": [], "states": [], "digest": seeds.digest("reference_load_failed", type(e).__name__), "outcome": [], "steps": 0}
    # the reference objects are garbage now, but they are reference cycles (module <-> project): collect
    # them, so that no weakly-held leftover of the reference run is around when the history starts
    import gc

    gc.collect()

    actors = []  # dict(obj, how, snap, bytes, writer)
    seq = []

    def check_fresh(kind, t, obj, i, when):
        key = (kind, t % len(ALL_TYPES) if kind in ("module", "synth") else t % 12)
        ref = pristine.get(key)
        if ref is None:
            return
        snap, b = obj_digest(obj)
        d = snapshot.diff(ref[0], snap, limit=5)
        if d or b != ref[1]:
            path = snapshot.path_class(d[0][0]) if d else "bytes"
            violations.append(_v("fresh_object_equals_pristine", path=path, detail={"op": i, "when": when, "type": type_of(obj), "diff": [(list(p), snapshot.short(a), snapshot.short(bb)) for p, a, bb in d[:3]]}))

    def check_others(actor_idx, i, what):
        for j, a in enumerate(actors):
            if j == actor_idx or a is None:
                continue
            snap, b = obj_digest(a["obj"])
            d = snapshot.diff(a["snap"], snap, limit=5)
            if d or b != a["bytes"]:
                path = snapshot.path_class(d[0][0]) if d else "bytes"
                acting = actors[actor_idx] if actor_idx is not None and actor_idx < len(actors) else None
                violations.append(
                    _v("non_interference", path=path,
                       detail={"op": i, "step": what, "observed": type_of(a["obj"]), "obtained": a["how"], "acting": type_of(acting["obj"]) if acting else None, "observed_actor": j,
                               "diff": [(list(p), snapshot.short(x), snapshot.short(y)) for p, x, y in d[:3]]})
                )
                a["snap"], a["bytes"] = snap, b  # report once

    for i, op in enumerate(case["ops"]):
        k = op["k"]
        if k == "bgload":
            noise.run(op)
            continue
        try:
            if k == "obtain":
                how = op.get("how", "new")
                src = actors[op.get("of", 0) % len(actors)] if actors else None
                obj = None
                if how == "new" or (src is None and how in ("clone", "load", "clone_embedded")):
                    how = "new"
                    obj = construct(op.get("kind", "module"), op.get("t", 0))
                    check_fresh(op.get("kind", "module"), op.get("t", 0), obj, i, "obtain")
                elif how == "clone":
                    so = src["obj"]
                    if isinstance(so, Pattern):
                        how = "new"
                        obj = construct("pattern", op.get("t", 0))
                    else:
                        obj = so.clone()
                        if obj is None:
                            how = "new"
                            obj = construct("module", op.get("t", 0))
                elif how == "load":
                    so = src["obj"]
                    if isinstance(so, Pattern):
                        how = "new"
                        obj = construct("pattern", op.get("t", 0))
                    else:
                        obj = load_bytes(obj_bytes(so))
                elif how == "clone_embedded":
                    # a clone of a project EMBEDDED in another actor's MetaModule (not of the MetaModule itself)
                    so = src["obj"]
                    mm = None
                    if isinstance(so, Synth) and type(so.module).__name__ == "MetaModule":
                        mm = so.module
                    elif type(so).__name__ == "MetaModule":
                        mm = so
                    elif isinstance(so, Project):
                        mm = next((m for m in so.modules if m is not None and type(m).__name__ == "MetaModule"), None)
                    if mm is None:
                        how = "new"
                        obj = construct(op.get("kind", "module"), op.get("t", 0))
                    else:
                        obj = mm.project.clone()
                elif how == "metascn":
                    # a constructed (never loaded) project with a configured MetaModule: embedded modules,
                    # exposed user controllers, mappings onto embedded controllers
                    sess = builder.Session(layout=case.get("layout", 1))
                    rr = seeds.rng(op.get("t", 0), "metascn")
                    for _ in range(3):
                        sess.apply(builder.gen_op(rr, {"udscn": 1}))
                    obj = sess.project
                elif how == "twins":
                    # a *loaded* project that contains two modules with byte-identical,
                    # non-default payload (build, mutate, clone the module, save, load)
                    sess = builder.Session(layout=case.get("layout", 1))
                    tn = ("MultiCtl", "MetaModule", "WaveShaper", "MultiSynth", "Sampler", "SpectraVoice", "Fmx", "Generator")[op.get("t", 0) % 8]
                    sess.apply({"k": "mod", "t": builder.TYPE_NAMES.index(tn)})
                    sess.apply({"k": "twin", "m": 0, "s": op.get("t", 0), "vs": [seeds.derive(op.get("t", 0), j) >> 2 for j in range(3)], "pay": True})
                    obj = load_bytes(sess.project.read())
                elif how == "bigsampler":
                    # a constructed Sampler whose first sample has a boundary-biased size (sizes are part of the swarm)
                    obj = M.Sampler()
                    smp = obj.samples[0] = M.Sampler.Sample()
                    size = (1024, 65528, 65536, 65544, 1 << 18)[op.get("t", 0) % 5]
                    smp.data = (bytes(range(256)) * (size // 256 + 1))[:size]
                    smp.name = b"big"
                    smp.volume = 33
                elif how == "loadfile_unused":
                    pass
                else:  # loadfile: the same file twice gives two independent objects
                    obj = load_bytes(file_bytes(op.get("t", 0))[0])
                    how = "loadfile"
                snap, b = obj_digest(obj)
                actors.append({"obj": obj, "how": how, "snap": snap, "bytes": b, "writer": None, "mut": 0})
                check_others(len(actors) - 1, i, "obtain:" + how)
                log.append((i, "obtain", how, type_of(obj), b))
                continue
            if not actors:
                continue
            ai = op.get("a", 0) % len(actors)
            a = actors[ai]
            if k == "mutate":
                a["mut"] += 1  # any mutation attempt while a writer is suspended disqualifies its comparison
                acting_idx = None
                if isinstance(a["obj"], Project) and op.get("bop", {}).get("k") == "set":
                    ms_ = [m for m in a["obj"].modules if m is not None]
                    acting = ms_[op["bop"]["m"] % len(ms_)]
                    acting_idx = acting.index
                    acting_is_multictl = type(acting).__name__ == "MultiCtl"
                    if acting_is_multictl:
                        # decide from the slot that WILL be written (the op may fail half way through
                        # the propagation): a MultiCtl's controllers legitimately drive its linked targets
                        builder.set_layout(case.get("layout", 1))
                        sl = builder.module_slots(acting, builder.Session(a["obj"], layout=case.get("layout", 1)), layout=case.get("layout", 1))
                        if sl[op["bop"]["s"] % len(sl)][0].startswith("ctl."):
                            acting_idx = None
                label = mutate(a["obj"], op, case.get("layout", 1))
                snap, b = obj_digest(a["obj"])
                if acting_idx is not None:
                    # isolation between the modules of ONE project: a module-local edit must not
                    # change any other module of the same project
                    old = a["snap"]
                    for path in old:
                        if len(path) > 2 and path[0] == "mod" and path[1] != acting_idx and snap.get(path, old[path]) != old[path]:
                            violations.append(_v("non_interference", path="sibling:" + snapshot.path_class(path[2:]),
                                                 detail={"op": i, "step": "mutate:" + label, "acting_module": acting_idx, "changed_module": path[1], "obtained": a["how"],
                                                         "before": snapshot.short(old[path]), "after": snapshot.short(snap.get(path))}))
                            break
                changed = snap != a["snap"] or b != a["bytes"]
                a["snap"], a["bytes"] = snap, b
                if changed and len(actors) > 1:
                    nontrivial = True
                check_others(ai, i, "mutate:" + label)
                for j, o in enumerate(actors):
                    if j != ai:
                        states.append(seeds.h64(type_of(a["obj"]), o["how"], label))
                seq.append(ai)
                states.append(seeds.h64("seq", seq[-8:]))
                log.append((i, "mutate", ai, label, b))
            elif k == "save":
                s0 = a["snap"]
                b = obj_digest(a["obj"])
                if b[0] != s0:
                    pass  # purity is C05's subject
                check_others(ai, i, "save")
                log.append((i, "save", ai, b[1]))
            elif k == "writer_step":
                obj = a["obj"]
                if not isinstance(obj, (Project, Synth)):
                    continue
                if a["writer"] is None:
                    a["writer"] = [obj.chunks(), simio.SimFile(Ctx(()), 0, b"", "arg", "w"), (a["bytes"], a["mut"])]
                    fired["writer_started"] = fired.get("writer_started", 0) + 1
                gen, out, at_start = a["writer"]
                for _ in range(1 + op.get("n", 0) % 40):
                    try:
                        write_chunk(out, *next(gen))
                        fired["writer_step"] = fired.get("writer_step", 0) + 1
                    except StopIteration:
                        a["writer"] = None
                        fired["writer_finished"] = fired.get("writer_finished", 0) + 1
                        # the object may have been mutated by its own actor meanwhile: only
                        # compare when it was not
                        if at_start == (a["bytes"], a["mut"]):
                            if seeds.digest(out.getvalue()) != a["bytes"]:
                                violations.append(_v("suspended_writer_equals_plain", type=type_of(obj), detail={"op": i}))
                        break
                check_others(ai, i, "writer_step")
                seq.append(ai)
                log.append((i, "writer_step", ai))
            elif k == "writers":
                # two actors save at the same time: their chunks() generators are advanced alternately
                # under a seeded schedule, to completion, with nothing else happening in between
                bi = op.get("b", 1) % len(actors)
                pair = [x for x in (a, actors[bi]) if isinstance(x["obj"], (Project, Synth))]
                if len(pair) == 2 and pair[0] is not pair[1]:
                    gens = [x["obj"].chunks() for x in pair]
                    outs = [simio.SimFile(Ctx(()), 0, b"", "arg", "w") for _ in pair]
                    done = [False, False]
                    sched = op.get("schedule", 0)
                    step = 0
                    while not all(done):
                        who = (sched >> (step % 60)) & 1
                        if done[who]:
                            who = 1 - who
                        step += 1
                        try:
                            write_chunk(outs[who], *next(gens[who]))
                        except StopIteration:
                            done[who] = True
                    fired["writer_interleaving"] = fired.get("writer_interleaving", 0) + 1
                    for x, out in zip(pair, outs):
                        if seeds.digest(out.getvalue()) != x["bytes"]:
                            violations.append(_v("suspended_writer_equals_plain", type=type_of(x["obj"]), detail={"op": i, "mode": "two writers interleaved"}))
                    check_others(None, i, "writers")
                log.append((i, "writers", ai, bi))
            elif k == "construct_check":
                kind = op.get("kind", "module")
                obj = construct(kind, op.get("t", 0))
                check_fresh(kind, op.get("t", 0), obj, i, "after_mutations")
                check_others(None, i, "construct")
                probes["fresh_construction_checked"] = probes.get("fresh_construction_checked", 0) + 1
                log.append((i, "construct_check", kind, type_of(obj)))
            elif k == "failed_load":
                # some actor's load is hit by an I/O fault half way: nothing anybody holds may change
                data, n = file_bytes(op.get("t", 0))
                fault = dict(op.get("fault", {"kind": "read_eio", "at": 5}), stream=op.get("fault", {}).get("stream", 0))
                ctx = Ctx([fault])
                outcome = "ok"
                with active(ctx):
                    try:
                        read_sunvox_file(ctx.new_stream(data, "arg"))
                    except (KeyboardInterrupt, HarnessTimeout):
                        raise
                    except BaseException as e:
                        outcome = type(e).__name__
                env.LOG.take()
                if ctx.fired:
                    fired["load_fault:" + fault["kind"]] = fired.get("load_fault:" + fault["kind"], 0) + 1
                check_others(None, i, "failed_load")
                log.append((i, "failed_load", n, outcome))
            elif k == "load_check":
                # a clean load of a fixture must give what it gave in the pristine process state
                data_, n = file_bytes(op.get("t", 0))
                try:
                    snap, b = obj_digest(load_bytes(data_))
                except (KeyboardInterrupt, HarnessTimeout):
                    raise
                except Exception as e:
                    if not env.raised_in_rv(e):
                        raise
                    violations.append(_v("later_load_equals_pristine_load", path="raises:" + type(e).__name__, detail={"op": i, "file": n, "msg": str(e)[:120]}))
                    log.append((i, "load_check", n, "raises"))
                    continue
                ref = pristine_file[n]
                d = snapshot.diff(ref[0], snap, limit=5)
                if d or b != ref[1]:
                    path = snapshot.path_class(d[0][0]) if d else "bytes"
                    violations.append(_v("later_load_equals_pristine_load", path=path, detail={"op": i, "file": n, "diff": [(list(p_), snapshot.short(x), snapshot.short(y)) for p_, x, y in d[:3]]}))
                check_others(None, i, "load_check")
                probes["later_load_checked"] = probes.get("later_load_checked", 0) + 1
                log.append((i, "load_check", n, b))
            elif k == "borrow_fail":
                # actor A runs a bulk edit on its pattern whose generator hands over a LIVE note of actor B's
                # pattern (as a copy-between-patterns script would) and then gives up: the edit is dropped, and
                # nothing B holds may have changed - not even whom B's notes answer for
                def first_pattern(o):
                    if isinstance(o, Pattern):
                        return o
                    if isinstance(o, Project):
                        return next((x for x in o.patterns if isinstance(x, Pattern)), None)
                    return None

                bi = op.get("b", 1) % len(actors)
                pa, pb = first_pattern(a["obj"]), first_pattern(actors[bi]["obj"])
                if pa is None or pb is None or pa is pb or bi == ai or pa.lines * pa.tracks < 2:
                    log.append((i, "borrow_fail", "skip"))
                    continue
                a["mut"] += 1
                # gives up after 1 .. cells-1 notes, never after all of them: a COMPLETED edit that places
                # B's Note object in A's grid as well is the caller's mistake, not an aftermath
                at = 1 + op.get("at", 0) % (pa.lines * pa.tracks - 1)

                class _GiveUp(Exception):
                    pass

                def gen(pattern, new):
                    n_ = 0
                    for line in range(pattern.lines):
                        for track in range(pattern.tracks):
                            if n_ >= at:
                                raise _GiveUp()
                            yield line, track, pb.data[line % pb.lines][track % pb.tracks]
                            n_ += 1

                try:
                    pa.set_via_gen(gen)
                    raise AssertionError("harness: the borrowing generator must not complete")
                except _GiveUp:
                    outcome = "gave_up"
                fired["failed_bulk_edit_with_borrowed_note"] = fired.get("failed_bulk_edit_with_borrowed_note", 0) + 1
                a["snap"], a["bytes"] = obj_digest(a["obj"])
                check_others(ai, i, "borrow_fail")
                log.append((i, "borrow_fail", ai, bi, outcome))
            elif k == "scribble":
                # an actor writes all over its own object graph IN PLACE (every list element, every field of
                # every sample / envelope / mapping / MIDI map / note it can reach) and then lets go of it:
                # whatever another actor's object, a later load or a later construction shares with it shows
                n_ = trash.scribble(a["obj"], op.get("v", 0))
                fired["scribbled_graph"] = fired.get("scribbled_graph", 0) + 1
                probes["scribbled_leaves"] = probes.get("scribbled_leaves", 0) + n_
                how_ = a["how"]
                actors.pop(ai)
                if actors:
                    nontrivial = True
                check_others(None, i, "scribble:" + how_)
                log.append((i, "scribble", ai, n_))
            elif k == "drop":
                # an actor lets go of its object: nothing the others hold may change
                if len(actors) > 1:
                    actors.pop(ai)
                    check_others(None, i, "drop")
                log.append((i, "drop", ai))
            else:
                raise ValueError(op)
        except (KeyboardInterrupt, HarnessTimeout):
            raise
        except Exception as e:
            if not env.raised_in_rv(e):
                raise
            probes["op_error:" + type(e).__name__] = probes.get("op_error:" + type(e).__name__, 0) + 1
            log.append((i, k, "error", type(e).__name__))
    # drain writers that are still suspended at the end of the history
    for ai, a in enumerate(actors):
        if a.get("writer") is None:
            continue
        gen, out, at_start = a["writer"]
        try:
            for ch in gen:
                write_chunk(out, *ch)
            fired["writer_finished"] = fired.get("writer_finished", 0) + 1
            if at_start == (a["bytes"], a["mut"]) and seeds.digest(out.getvalue()) != a["bytes"]:
                violations.append(_v("suspended_writer_equals_plain", type=type_of(a["obj"]), detail={"op": "end"}))
        except (KeyboardInterrupt, HarnessTimeout):
            raise
        except Exception as e:
            if not env.raised_in_rv(e):
                raise
        check_others(ai, len(case["ops"]), "writer_drain")
    env.LOG.take()
    return {
        "violations": violations,
        "fired": fired,
        "probes": probes,
        "nontrivial": [seeds.h64(case["ops"])] if nontrivial else [],
        "states": states,
        "digest": seeds.digest(log),
        "outcome": log[-2:],
        "steps": len(case["ops"]),
    }


def generate(seed, i, tier="quick"):
    r = seeds.rng(seed, "c17hist", i)
    ops = []
    nact = r.randint(2, 4)
    # swarm: a run focuses on one type family so that A and B often share a class
    focus_t = r.randrange(len(ALL_TYPES))
    if r.random() < 0.08:
        focus_t = len(files.fixture_names()) + r.randrange(3)  # as a file index: one of the big generated files
    focus_kind = r.choice(KINDS)

    def obtain(first):
        how = r.choice(["new", "new", "new", "twins", "loadfile", "metascn"]) if first else r.choice(["new", "new", "clone", "load", "loadfile", "twins", "clone_embedded", "clone_embedded", "metascn"])
        kind = focus_kind if r.random() < 0.7 else r.choice(KINDS)
        t = focus_t if r.random() < 0.7 else r.randrange(1000)
        return {"k": "obtain", "how": how, "kind": kind, "t": t, "of": r.randrange(4)}

    if r.random() < 0.08:
        # swarm: the aliasing scenario - several actors hold copies of ONE thing (the same file loaded
        # twice, a big-sample Sampler and its clones / reloads), one of them scribbles over its copy
        t = focus_t if r.random() < 0.5 else r.randrange(1000)
        first = r.choice([{"k": "obtain", "how": "loadfile", "t": t}, {"k": "obtain", "how": "bigsampler", "kind": "module", "t": r.randrange(5)},
                          {"k": "obtain", "how": "twins", "t": r.randrange(1000)}])
        ops.append(first)
        for _ in range(r.randint(1, 3)):
            ops.append(dict(first) if first["how"] == "loadfile" and r.random() < 0.6 else {"k": "obtain", "how": r.choice(["clone", "load", "clone"]), "of": r.randrange(4), "t": t})
        for _ in range(r.randint(0, 3)):
            ops.append({"k": "mutate", "a": r.randrange(4), "s": r.randrange(100000), "v": r.getrandbits(62), "bop": builder.gen_op(r)})
        ops.append({"k": "scribble", "a": r.randrange(4), "v": r.randrange(1000)})
        if first["how"] == "loadfile":
            ops.append({"k": "load_check", "t": t})
        ops.append({"k": "construct_check", "kind": focus_kind, "t": focus_t})
        ops.append({"k": "scribble", "a": r.randrange(4), "v": r.randrange(1000)})
        ops.append({"k": "obtain", "how": "load", "of": r.randrange(4), "t": t})
        noise.sprinkle(r, ops)
        return {"property": PROPERTY, "world": "actors", "layout": 2, "ops": ops}
    ops.append(obtain(True))
    # sometimes mutate A *before* B exists (class-level default contamination)
    for _ in range(r.choice([0, 0, 2, 5])):
        ops.append({"k": "mutate", "a": 0, "s": r.randrange(100000), "v": r.getrandbits(62), "bop": builder.gen_op(r)})
    for _ in range(nact - 1):
        ops.append(obtain(False))
    for _ in range(r.randint(5, 40)):
        x = r.random()
        a = r.randrange(4)
        if x < 0.59:
            ops.append({"k": "mutate", "a": a, "s": r.randrange(100000), "v": r.getrandbits(62), "bop": builder.gen_op(r)})
        elif x < 0.60 and focus_kind in ("pattern", "project"):
            ops.append({"k": "borrow_fail", "a": a, "b": r.randrange(4), "at": r.randrange(64)})
        elif x < 0.62:
            ops.append({"k": "scribble", "a": a, "v": r.randrange(1000)})
            if r.random() < 0.5:
                ops.append({"k": "load_check", "t": focus_t if r.random() < 0.7 else r.randrange(1000)})
        elif x < 0.70:
            ops.append({"k": "save", "a": a})
        elif x < 0.79:
            ops.append({"k": "writer_step", "a": a, "n": r.randrange(40)})
        elif x < 0.85:
            ops.append({"k": "writers", "a": a, "b": r.randrange(4), "schedule": r.choice([0x555555555555555, 0x333333333333333, r.getrandbits(60), r.getrandbits(60)])})
        elif x < 0.93:
            ops.append({"k": "construct_check", "kind": focus_kind if r.random() < 0.7 else r.choice(KINDS), "t": focus_t if r.random() < 0.7 else r.randrange(1000)})
        elif x < 0.955:
            ops.append(obtain(False))
        elif x < 0.975:
            kind = r.choice(["read_eio", "read_cancel", "read_nomem", "read_short", "seek_err", "tell_err", "trunc", "flip"])
            f = {"kind": kind, "at": r.choice([0, 1, 3, 10, 40, r.randrange(400)]), "stream": r.choice([0, 0, 1])}
            if kind == "flip":
                f["xor"] = r.randrange(1, 256)
            ops.append({"k": "failed_load", "t": focus_t if r.random() < 0.5 else r.randrange(1000), "fault": f})
        elif x < 0.99:
            ops.append({"k": "load_check", "t": focus_t if r.random() < 0.5 else r.randrange(1000)})
        else:
            ops.append({"k": "drop", "a": a})
    ops.append({"k": "construct_check", "kind": focus_kind, "t": focus_t})
    noise.sprinkle(r, ops)
    return {"property": PROPERTY, "world": "actors", "layout": 2, "ops": ops}


def plan(tier, seed):
    n = 3200 if tier == "quick" else 100000
    per = 50
    units = [{"kind": "seeded", "seed": seed, "first": i, "count": min(per, n - i), "tier": tier} for i in range(0, n, per)]
    units.insert(0, {"kind": "types"})
    # a load that fails at (a spread of) every read index, then clean loads of the same and of
    # another file: a failed load must leave nothing behind that a later load can see
    nfix = len(files.fixture_names())
    step = 4 if tier == "quick" else 1
    for t in range(0, nfix, 6):
        units.append({"kind": "failed_loads", "first": t, "count": 6, "step": step})
    return units


def type_sweep_cases():
    """Every type against itself: A new, mutate every slot class once, B new / clone / load,
    fresh construction afterwards."""
    for t in range(len(ALL_TYPES)):
        for kind in ("module", "synth"):
            for how in ("new", "clone", "load"):
                ops = [{"k": "obtain", "how": "new", "kind": kind, "t": t}, {"k": "obtain", "how": how, "kind": kind, "t": t, "of": 0}]
                for s in range(0, 90, 1):
                    ops.append({"k": "mutate", "a": s % 2, "s": s, "v": seeds.derive(t, s) >> 2, "bop": {"k": "pset", "s": s, "v": s}})
                ops.append({"k": "construct_check", "kind": kind, "t": t})
                yield ops
    for kind in ("project", "pattern"):
        for how in ("new", "clone", "load"):
            r = seeds.rng(7, kind, how)
            ops = [{"k": "obtain", "how": "new", "kind": kind, "t": 1}, {"k": "obtain", "how": how, "kind": kind, "t": 1, "of": 0}]
            for s in range(60):
                ops.append({"k": "mutate", "a": s % 2, "s": s, "v": r.getrandbits(62), "bop": builder.gen_op(r)})
            ops.append({"k": "construct_check", "kind": kind, "t": 1})
            yield ops


def failed_load_cases(t, step):
    from . import c18

    spec = {"src": "fixture", "name": files.fixture_names()[t]}
    per, sizes, datas, _ = c18.profile(spec, "file")
    nreads = len(per.get(0, {}).get("read", ()))
    ops = [{"k": "obtain", "how": "loadfile", "t": t}]
    for at in range(0, nreads, step):
        kind = ("read_eio", "read_cancel", "read_short", "read_nomem")[(at // step) % 4]
        ops.append({"k": "failed_load", "t": t, "fault": {"kind": kind, "at": at, "stream": 0}})
        ops.append({"k": "load_check", "t": t})
        if (at // step) % 5 == 0:
            ops.append({"k": "load_check", "t": t + 1})
        if len(ops) > 60:
            yield ops
            ops = [{"k": "obtain", "how": "loadfile", "t": t}]
    if len(ops) > 1:
        yield ops


def run_unit(unit):
    acc = Acc()
    if unit["kind"] == "failed_loads":
        nfix = len(files.fixture_names())
        for t in range(unit["first"], min(nfix, unit["first"] + unit["count"])):
            for ops in failed_load_cases(t, unit["step"]):
                acc.run(execute, {"property": PROPERTY, "world": "actors", "layout": 2, "ops": ops}, isolate=True, seconds=120)
        acc.probes["failed_load_sweep_units"] += 1
        return acc.to_dict()
    if unit["kind"] == "types":
        for ops in type_sweep_cases():
            acc.run(execute, {"property": PROPERTY, "world": "actors", "layout": 2, "ops": ops}, isolate=True, seconds=120)
        acc.probes["all_types_pairwise_sweep"] += 1
        return acc.to_dict()
    for i in range(unit["first"], unit["first"] + unit["count"]):
        acc.run(execute, generate(unit["seed"], i, unit.get("tier", "quick")), isolate=True)
    return acc.to_dict()
