"""C06 - edits made to a loaded object are what gets saved.

World `store`, started from files on the SimDisk (every fixture, library-generated
projects).  Per cycle: load; apply 1-4 catalogue edits to the *loaded* object; save;
restart; load.  2-4 cycles per run, so edits are made to objects that themselves came
from an edited save.  Differential oracle, robust to unrelated round-trip
imperfections (those belong to C01/C05): with S_pre/S_post the live snapshots around
the edit and R_pre/R_post the snapshots after save+load of the object before/after the
edit, every path unchanged live must be unchanged across the reload (R_post == R_pre)
and every path changed live must show the new value (R_post == N(S_post)).
"""
from .. import builder, env, files, seeds, simio, snapshot, noise  # noqa: F401
from ..runner import Acc
from ..simio import Ctx, HarnessTimeout, active
from . import c01

from rv.project import Project
from rv.readers.reader import read_sunvox_file
from rv.synth import Synth

PROPERTY = "C06"
LEVEL = "exploration"
BUDGET_S = {"quick": 150, "thorough": 3600}
RULE = (
    "one evaluation = one history on one file: load, then 2-4 cycles of (1-4 edits of catalogue slots of the LOADED "
    "object: project fields, common module fields, any controller, any option, MIDI bindings, type-specific payload incl. "
    "Sampler envelopes/samples/maps/effect and embedded MetaModule projects, links, pattern fields and cells) -> save -> "
    "restart -> load (15% of histories write the hash-colliding twin values -1/-2 alternately to one signed scalar, cycle "
    "after cycle), judged by the differential oracle (unchanged paths stay, changed paths show). Files: all fixtures "
    "and seeded generated projects. non-trivial = at least one edit changed the live snapshot; distinct = distinct "
    "(file, op list) hashes"
)
STATE_MEASURE = "distinct (owner type, edited path class) pairs + hash of snapshot at each restart"
COMPONENTS = {"real": ["rv reader stack and every writer path (incl. Sampler legacy replay, MetaModule embedded project, options chunks)"], "stub": ["SimFile"]}
ASSUMPTIONS = [
    "observable state = allow-list snapshot (DESIGN Appendix A); new values are in-domain per the catalogue",
    "legitimate couplings (exclusive options, unit -> dependent range, MetaModule user controller -> embedded target, MultiCtl -> targets) need no special-casing because they already appear in the live post-edit snapshot",
]

ABSENT = "<absent>"


def _v(oracle, **kw):
    d = {"property": PROPERTY, "oracle": oracle}
    d["detail"] = kw.pop("detail", {})
    d.update(kw)
    return d


def load(data):
    ctx = Ctx(())
    with active(ctx):
        obj = read_sunvox_file(ctx.new_stream(data, "arg"))
    env.LOG.take()
    return obj


def apply_edit(obj, e, layout=1):
    if isinstance(obj, Project):
        return builder.Session(obj, layout=layout).apply(e)
    mod = obj.module
    builder.set_layout(layout)
    if e["k"] == "neg":
        try:
            return builder.apply_neg(mod, e, in_project=False)
        except (KeyboardInterrupt, HarnessTimeout):
            raise
        except Exception as ex:
            if not env.raised_in_rv(ex):
                raise
            return "error:" + type(ex).__name__
    slots = builder.module_slots(mod, None, in_project=False, layout=layout)
    label, setter = slots[e["s"] % len(slots)]
    try:
        setter(e.get("v", 0x5A5A5A5A5A))
    except (KeyboardInterrupt, HarnessTimeout):
        raise
    except Exception as ex:
        if not env.raised_in_rv(ex):
            raise
        return "error:" + type(ex).__name__
    return "set:%s.%s" % (type(mod).__name__, label)


def abort_synth_saves(obj, v):
    """Save attempts of a loaded Synth cut short at every write index / abandoned after every chunk."""
    n_chunks = sum(1 for _ in obj.chunks())
    if v & 1:
        for at in reversed(range(0, 3 * n_chunks, max(1, 3 * n_chunks // 64))):
            ctx = Ctx([{"kind": ("write_eio", "write_enospc", "write_cancel")[at % 3], "at": at}])
            out = simio.SimFile(ctx, 0, b"", "arg", "w")
            ctx.streams.append(out)
            try:
                obj.write_to(out)
            except (KeyboardInterrupt, HarnessTimeout):
                raise
            except BaseException as e:
                if not ctx.fired and not env.raised_in_rv(e):
                    raise
        return "aborted_synth_save_sweep"
    for cut in reversed(range(0, n_chunks, max(1, n_chunks // 64))):
        gen = obj.chunks()
        for _ in range(cut + 1):
            if next(gen, None) is None:
                break
        if (v >> 1) & 1:
            gen.close()
        del gen
    return "abandoned_synth_writer_sweep"


def execute(case):
    violations = []
    probes = {}
    states = []
    log = []
    obj = None
    label = None
    nontrivial = False
    for i, op in enumerate(case["ops"]):
        k = op["k"]
        if k == "bgload":
            noise.run(op)
            continue
        try:
            if k == "load":
                label = files.spec_label(op["file"])
                obj = load(files.materialize(op["file"]))
                log.append((i, "load", label, type(obj).__name__))
            elif obj is None:
                continue
            elif k == "edit":
                builder.normalise_metamodules(obj)
                s_pre = snapshot.snapshot(obj)
                try:
                    r_pre = snapshot.snapshot(load(obj.read()))
                except (KeyboardInterrupt, HarnessTimeout):
                    raise
                except Exception as e:
                    probes["presave_failed:" + type(e).__name__] = probes.get("presave_failed:" + type(e).__name__, 0) + 1
                    break
                outs = []
                if op.get("abort_first") is not None and isinstance(obj, Project):
                    # before the edits: save attempts of the loaded object that are cut short at every write index
                    # (or writers abandoned after every chunk) - the save that counts is the one after the edits
                    outs.append(builder.Session(obj, layout=case.get("layout", 1)).apply({"k": "bad", "kind": builder.BAD_KINDS.index("aborted_save_sweep" if op["abort_first"] & 1 else "abandoned_writer_sweep"), "m": 0, "v": op["abort_first"] >> 1}))
                elif op.get("abort_first") is not None:
                    outs.append(abort_synth_saves(obj, op["abort_first"]))
                outs += [apply_edit(obj, e, case.get("layout", 1)) for e in op["edits"]]
                builder.normalise_metamodules(obj)
                s_post = snapshot.snapshot(obj)
                changed = [p for p in set(s_pre) | set(s_post) if s_pre.get(p, ABSENT) != s_post.get(p, ABSENT)]
                if changed:
                    nontrivial = True
                try:
                    data = obj.read()
                except (KeyboardInterrupt, HarnessTimeout):
                    raise
                except Exception as e:
                    violations.append(_v("save_after_edit_raises", exc=type(e).__name__, detail={"op": i, "file": label, "edits": outs, "msg": str(e)[:120]}))
                    break
                try:
                    loaded = load(data)
                except (KeyboardInterrupt, HarnessTimeout):
                    raise
                except Exception as e:
                    violations.append(_v("reload_after_edit_raises", exc=type(e).__name__, detail={"op": i, "file": label, "edits": outs, "msg": str(e)[:120]}))
                    break
                r_post = snapshot.snapshot(loaded)
                want_post = c01.normalise(s_post)
                seen = set()
                chset = set(changed)
                for p in sorted(set(r_pre) | set(r_post) | chset, key=repr):
                    if p in chset:
                        got, want = r_post.get(p, ABSENT), want_post.get(p, ABSENT)
                        if got != want:
                            t = c01.owner_type(s_post, p) if p in s_post else c01.owner_type(s_pre, p)
                            pc = snapshot.path_class(p)
                            if ("e", t, pc) not in seen:
                                seen.add(("e", t, pc))
                                violations.append(_v("edit_persisted", type=t, path=pc, detail={"op": i, "file": label, "at": list(p), "edited_to": snapshot.short(want), "reloaded": snapshot.short(got), "before": snapshot.short(s_pre.get(p, ABSENT)), "edits": outs}))
                    else:
                        a, b = r_pre.get(p, ABSENT), r_post.get(p, ABSENT)
                        if a != b:
                            t = c01.owner_type(s_post, p)
                            pc = snapshot.path_class(p)
                            if ("k", t, pc) not in seen:
                                seen.add(("k", t, pc))
                                violations.append(_v("unedited_value_kept", type=t, path=pc, detail={"op": i, "file": label, "at": list(p), "before": snapshot.short(a), "after": snapshot.short(b), "edits": outs}))
                for o in outs:
                    states.append(seeds.h64(o))
                states.append(seeds.h64(sorted((repr(kk), repr(vv)) for kk, vv in s_post.items())))
                obj = loaded
                log.append((i, "edit", outs, len(changed), seeds.digest(data)))
            else:
                raise ValueError(op)
        except (KeyboardInterrupt, HarnessTimeout):
            raise
        except Exception as e:
            if not env.raised_in_rv(e):
                raise
            violations.append(_v("unexpected_exception", after=k, exc=type(e).__name__, detail={"op": i, "file": label, "msg": str(e)[:120]}))
            break
    env.LOG.take()
    return {
        "violations": violations,
        "fired": {"restart": sum(1 for x in log if x[1] == "edit")},
        "probes": probes,
        "nontrivial": [seeds.h64(case["ops"])] if nontrivial else [],
        "states": states,
        "digest": seeds.digest(log),
        "outcome": log[-2:],
        "steps": sum(len(op.get("edits", ())) + 1 for op in case["ops"]),
    }


EDIT_WEIGHTS = {"set": 12, "pset": 2, "tset": 1, "cell": 2, "link": 1.5, "embed": 2, "mod": 0.5, "pat": 0.5, "bad": 1.0}


def gen_edit(r):
    e = builder.gen_op(r, EDIT_WEIGHTS)
    if e["k"] == "set":
        pass
    return e


def base_specs(tier, seed):
    specs = [{"src": "fixture", "name": n} for n in files.fixture_names()]
    n = 30 if tier == "quick" else 200
    specs += [{"src": "gen", "seed": seeds.derive(seed, "c06gen", i) % (1 << 31), "nest": i % 2 == 0, "n": 25, "layout": 2} for i in range(n)]
    return specs


def generate(seed, i, tier="quick", spec=None):
    r = seeds.rng(seed, "c06hist", i)
    if spec is None:
        spec = r.choice(base_specs(tier, seed))
    ops = [{"k": "load", "file": spec}]
    # swarm: half of the runs keep coming back to one slot *element* with new values, so
    # that a value written in one cycle is overwritten in a later one
    focus = None
    if r.random() < 0.5:
        focus = {"k": "set", "m": r.randrange(1000), "s": r.randrange(100000), "low": r.getrandbits(12)}
    # swarm: some runs write the "twin" values -1 / -2 alternately to one signed field (common
    # fields, signed controllers, Sampler envelope points, sample tuning): the one in-domain pair
    # whose hashes collide, so a save path that decides "unchanged since load" from a hash stamp
    # writes the stale bytes
    twin = None
    if r.random() < 0.15:
        focus = None
        twin = {"k": "neg", "m": r.randrange(1000), "a": r.randrange(100000), "smp": r.random() < 0.7, "y": r.choice((-1, -2))}
    for cyc in range(r.randint(2, 4)):
        edits = []
        if twin is not None:
            edits.append(dict(twin, y=twin["y"] if cyc % 2 == 0 else -3 - twin["y"]))
            if r.random() < 0.5:
                ops.append({"k": "edit", "edits": edits})
                continue
        for _ in range(r.randint(1, 4)):
            if focus is not None and r.random() < 0.45:
                edits.append({"k": "set", "m": focus["m"], "s": focus["s"], "v": focus["low"] | (r.getrandbits(50) << 12)})
            else:
                edits.append(dict(gen_edit(r), s=r.randrange(100000)))
        ops.append({"k": "edit", "edits": edits})
        if r.random() < 0.2:
            ops[-1]["abort_first"] = r.getrandbits(30)
    noise.sprinkle(r, ops)
    return {"property": PROPERTY, "world": "store-from-files", "layout": 2, "ops": ops}


def plan(tier, seed):
    units = []
    specs = base_specs(tier, seed)
    per_file = 40 if tier == "quick" else 400
    for j, spec in enumerate(specs):
        rich = spec["src"] == "fixture" and any(x in spec["name"] for x in ("sampler", "metamodule", "multi", "spectra", "analog", "fmx", "generator", "waveshaper", "vorbis"))
        units.append({"kind": "file", "file": spec, "seed": seed, "first": j * 100000, "count": per_file * ((8 if tier == "quick" else 4) if rich else (2 if spec.get("nest") else 1)), "tier": tier})
    return units


def run_unit(unit):
    acc = Acc()
    for i in range(unit["first"], unit["first"] + unit["count"]):
        acc.run(execute, generate(unit["seed"], i, unit.get("tier", "quick"), spec=unit["file"]))
    return acc.to_dict()


def shrink_candidates(case):
    ops = case["ops"]
    for i, op in enumerate(ops):
        if op["k"] == "edit" and len(op["edits"]) > 1:
            for j in range(len(op["edits"])):
                yield dict(case, ops=ops[:i] + [dict(op, edits=op["edits"][:j] + op["edits"][j + 1 :])] + ops[i + 1 :])
