"""C19 - bulk pattern edits are all-or-nothing; notes stay owned by their pattern.

World `bulk`: a pattern (attached to a project or free) receives a history of bulk
edits through set_via_fn / set_via_gen.  The callable is a simulator-owned object with
a per-cell fault plan: complete, raise at cell k, cancel (BaseException) at cell k,
mutate the working copy in place and then raise at k, and for generators: raise before
the first / after the last yield, yield a subset, yield a cell twice.  Oracle: a cell
model (2-D array of 5-tuples) maintained by the harness.
Level: fault_enumeration (crash index ranges over every cell / every yield for the
swept shapes), seeded histories of successive edits on top.
"""
from .. import env, seeds, simio, noise  # noqa: F401
from ..runner import Acc
from ..simio import HarnessTimeout, SimCancel

import rv.modules as M
from rv.errors import PatternOwnershipError
from rv.note import NOTECMD, Note
from rv.pattern import Pattern
from rv.project import Project

PROPERTY = "C19"
LEVEL = "fault_enumeration"
BUDGET_S = {"quick": 60, "thorough": 3600}
EXHAUSTIVE = {"quick": False, "thorough": False}
RULE = (
    "one evaluation = one history: build a pattern (attached or free), then 1-6 bulk edits (set_via_fn / "
    "set_via_gen) interleaved with plain cell writes; the sweep part enumerates, per shape x setter x "
    "attached/free, a failing callable at EVERY cell index / yield index for fault kinds raise, cancel "
    "(BaseException) and mutate-working-copy-then-raise, plus complete edits; the seeded part samples "
    "multi-edit histories. non-trivial = the callable was actually entered and either crashed at the planned "
    "cell or completed; distinct = distinct (shape, attached, setter, fault kind, crash index, note-construction "
    "style) tuples (hash of the op list)"
)
STATE_MEASURE = "distinct (shape class, attached, setter, fault kind, crash position class first/interior/last/none, outcome)"
COMPONENTS = {
    "real": ["rv.pattern.Pattern (set_via_fn, set_via_gen, data, raw_data)", "rv.note.Note", "rv.project.Project", "rv.modules.*"],
    "stub": ["SimFn / SimGen: the user callable with a per-cell fault plan"],
}
ASSUMPTIONS = [
    "the callable fails only by raising (Exception or BaseException) at a cell boundary it controls; it never edits the pattern's own current notes in place",
    "identity of the pattern.data list objects across a failed edit is not demanded, only contents",
    "behaviour for callables that return non-Note objects or out-of-range indices is unspecified and not generated",
]

NOTE_VALUES = [int(x) for x in NOTECMD]


class CbError(Exception):
    """The callable's own failure."""


# the callable may fail with ANY exception type, including ones the iteration machinery
# itself gives a meaning to (StopIteration, GeneratorExit) or that library code might catch
EXC_TYPES = [
    CbError, StopIteration, GeneratorExit, StopAsyncIteration, KeyError, IndexError, AttributeError, TypeError,
    ValueError, RuntimeError, LookupError, ArithmeticError, OSError, MemoryError, RecursionError, AssertionError,
    NotImplementedError, EOFError, SystemExit,
]
EXC_BY_NAME = {c.__name__: c for c in EXC_TYPES}


def _cell_values(seed, line, track, nmods):
    r = seeds.h64(seed, line, track)
    note = NOTE_VALUES[r % len(NOTE_VALUES)]
    vel = (r >> 8) % 130
    module = (r >> 16) % (nmods + 3)
    ctl = (r >> 24) & 0xFFFF
    val = (r >> 40) & 0xFFFF
    return (note, vel, module, ctl, val)


def _fields(n):
    return (int(n.note), n.vel, n.module, n.ctl, n.val)


def _make_note(style, vals, pattern, line, track):
    note, vel, module, ctl, val = vals
    if style == 0:
        return Note(note=note, vel=vel, module=module, ctl=ctl, val=val)
    if style == 1:
        return Note(note=note, vel=vel, module=module, ctl=ctl, val=val, pattern=pattern)
    if style == 2:
        n = pattern.data[line][track].clone()
        n.note, n.vel, n.module, n.ctl, n.val = note, vel, module, ctl, val
        return n
    if style == 5:
        # a Note object that lives (and has been used) in a pattern of ANOTHER project is moved here
        src = _foreign_note(line, track)
        src.note, src.vel, src.module, src.ctl, src.val = note, vel, module, ctl, val
        return src
    other = Pattern(lines=1, tracks=1)
    return Note(note=note, vel=vel, module=module, ctl=ctl, val=val, pattern=other)


_FOREIGN = {}


def _foreign_note(line, track):
    """Notes of a pattern attached to an unrelated project, whose project-aware accessors
    have already been used there."""
    if "pat" not in _FOREIGN:
        fp = Project()
        fp.new_module(M.Amplifier)
        fp.new_module(M.Filter)
        pat = Pattern(lines=64, tracks=16)
        fp.attach_pattern(pat)
        _FOREIGN["project"], _FOREIGN["pat"] = fp, pat
    # a NEW Note object each time (a note handed over earlier now lives in the pattern under test
    # and must not be touched again), placed into the foreign pattern and used there first
    n = Note(pattern=_FOREIGN["pat"])
    _FOREIGN["pat"].data[line % 64][track % 16] = n
    n.module = 1
    _ = n.project
    _ = n.mod
    return n


class World:
    def __init__(self):
        self.project = None
        self.pattern = None
        self.model = None
        self.nmods = 0


def _snapshot(pattern):
    return [[_fields(n) for n in line] for line in pattern.data]


def _viol(oracle, **kw):
    d = {"property": PROPERTY, "oracle": oracle}
    detail = kw.pop("detail", {})
    d.update(kw)
    d["detail"] = detail
    return d


def _check_contents(w, violations, oracle, i, setter):
    p = w.pattern
    got = _snapshot(p)
    if len(got) != len(w.model) or any(len(a) != len(b) for a, b in zip(got, w.model)):
        violations.append(_viol(oracle, setter=setter, what="shape", detail={"op": i}))
        return
    bad = [(l, t) for l, row in enumerate(w.model) for t, v in enumerate(row) if got[l][t] != v]
    if bad:
        l, t = bad[0]
        violations.append(
            _viol(oracle, setter=setter, what="cells", detail={"op": i, "first": [l, t], "n": len(bad), "got": got[l][t], "want": list(w.model[l][t])})
        )
    import struct

    want_raw = b"".join(struct.pack("<BBHHH", *v) for row in w.model for v in row)
    if p.raw_data != want_raw:
        violations.append(_viol(oracle, setter=setter, what="raw_data", detail={"op": i}))
    if p.lines != len(w.model) or p.tracks != len(w.model[0]):
        violations.append(_viol(oracle, setter=setter, what="dims", detail={"op": i}))


def _check_ownership(w, violations, i, setter, supplied):
    p = w.pattern
    seen = set()
    for l, row in enumerate(p.data):
        for t, n in enumerate(row):
            cls = "supplied" if (l, t) in supplied else "untouched"
            if n.pattern is not p:
                key = ("note_owned_by_pattern", cls)
                if key not in seen:
                    seen.add(key)
                    violations.append(
                        _viol("note_owned_by_pattern", setter=setter, cell=cls, attached=w.project is not None,
                              detail={"op": i, "cell": [l, t], "note.pattern": type(n.pattern).__name__})
                    )
                continue
            if w.project is not None:
                try:
                    proj = n.project
                    mod = n.mod
                    ok = proj is w.project
                    k = n.module
                    want = None
                    if k != 0 and k - 1 < len(w.project.modules):
                        want = w.project.modules[k - 1]
                    ok = ok and (mod is want)
                except Exception as e:  # accessor blew up
                    ok = False
                    mod = repr(e)
                if not ok and ("acc", cls) not in seen:
                    seen.add(("acc", cls))
                    violations.append(
                        _viol("project_aware_accessors", setter=setter, cell=cls, attached=True, detail={"op": i, "cell": [l, t], "got": repr(mod)})
                    )
            else:
                try:
                    n.mod
                    raised = False
                except PatternOwnershipError:
                    raised = True
                except Exception:
                    raised = False
                if not raised and ("acc", cls) not in seen:
                    seen.add(("acc", cls))
                    violations.append(_viol("project_aware_accessors", setter=setter, cell=cls, attached=False, detail={"op": i, "cell": [l, t]}))


def execute(case):
    w = World()
    violations = []
    fired = {}
    probes = {}
    states = []
    log = []
    for i, op in enumerate(case["ops"]):
        k = op["k"]
        if k == "bgload":
            noise.run(op)
            continue
        if k == "setup":
            lines, tracks = max(1, op["lines"]), max(1, min(32, op["tracks"]))
            w.pattern = Pattern(lines=lines, tracks=tracks)
            w.nmods = op.get("nmods", 0)
            if op.get("attached"):
                w.project = Project()
                for j in range(w.nmods):
                    w.project.new_module((M.Amplifier, M.Filter, M.Generator)[j % 3])
                w.project.attach_pattern(w.pattern)
            else:
                w.project = None
            fill = op.get("fill", 0)
            w.model = [[_cell_values(fill, l, t, w.nmods) for t in range(tracks)] for l in range(lines)]
            for l in range(lines):
                for t in range(tracks):
                    n = w.pattern.data[l][t]
                    n.note, n.vel, n.module, n.ctl, n.val = w.model[l][t]
            log.append((i, "setup", lines, tracks, bool(op.get("attached"))))
        elif w.pattern is None:
            continue
        elif k == "cell":
            lines, tracks = len(w.model), len(w.model[0])
            l, t = op["line"] % lines, op["track"] % tracks
            vals = _cell_values(op.get("seed", 0), l, t, w.nmods)
            n = w.pattern.data[l][t]
            n.note, n.vel, n.module, n.ctl, n.val = vals
            w.model[l][t] = vals
            log.append((i, "cell", l, t))
        elif k == "bulk":
            setter = op["setter"]
            plan = op.get("plan", {})
            mode = plan.get("mode", "complete")
            at = plan.get("at", 0)
            style = op.get("style", 0)
            seed = op.get("seed", 0)
            lines, tracks = len(w.model), len(w.model[0])
            ncells = lines * tracks
            pre = [row[:] for row in w.model]
            pre_raw = w.pattern.raw_data
            owned_before = []
            _check_ownership(w, owned_before, i, setter, {})
            observed = []
            entered = [0]
            supplied = {}

            raised = [None]

            def fail(kind):
                fired[kind] = fired.get(kind, 0) + 1
                if kind == "cb_cancel":
                    raised[0] = "SimCancel"
                    raise SimCancel("callable cancelled")
                cls = EXC_BY_NAME.get(plan.get("exc", "CbError"), CbError)
                raised[0] = cls.__name__
                if cls is not CbError:
                    fired["cb_raise:" + cls.__name__] = fired.get("cb_raise:" + cls.__name__, 0) + 1
                raise cls("callable failed")

            def observe(pattern):
                if op.get("observe", True):
                    observed.append(pattern.raw_data == pre_raw)

            if setter == "fn":
                def fn(pattern, line, track):
                    idx = entered[0]
                    entered[0] += 1
                    if idx == at and mode in ("raise", "cancel"):
                        observe(pattern)
                        fail("cb_raise" if mode == "raise" else "cb_cancel")
                    if style == 4:
                        # "rotate": hand back the Note object that currently lives one line below
                        sl = (line + 1) % lines
                        supplied[(line, track)] = pre[sl][track]
                        return pattern.data[sl][track]
                    vals = _cell_values(seed, line, track, w.nmods)
                    supplied[(line, track)] = vals
                    return _make_note(style, vals, pattern, line, track)

                call = lambda: w.pattern.set_via_fn(fn)  # noqa: E731
            else:
                order = list(range(ncells))
                r = seeds.rng(seed, "order")
                if plan.get("shuffle"):
                    r.shuffle(order)
                if plan.get("subset") is not None:
                    order = order[: max(0, min(ncells, plan["subset"]))]
                first_len = len(order)
                if plan.get("dup") and order:
                    order = order + order[: max(1, len(order) // 3)]

                def gen(pattern, new):
                    if mode == "raise_before_first":
                        observe(pattern)
                        fail("cb_raise_before_first")
                    for idx, c in enumerate(order):
                        entered[0] += 1
                        line, track = divmod(c, tracks)
                        if idx == at and mode in ("raise", "cancel", "mutate_raise"):
                            if mode == "mutate_raise":
                                # discouraged but allowed: edit the working copy in place - but
                                # never a Note that currently lives in the pattern (a moved note
                                # that this same callable put into the working copy earlier)
                                live = {id(x) for row in pattern.data for x in row}
                                for ll in range(lines):
                                    for tt in range(tracks):
                                        nn = new[ll][tt]
                                        if id(nn) in live:
                                            continue
                                        nn.vel = (nn.vel + 1) % 130
                                        nn.ctl = nn.ctl ^ 0x0101
                                new[0][0] = Note(note=1, vel=1)
                                observe(pattern)
                                fail("cb_mutate_then_raise")
                            observe(pattern)
                            fail("cb_raise" if mode == "raise" else "cb_cancel")
                        if style == 4 and not plan.get("dup"):
                            sl = (line + 1) % lines
                            supplied[(line, track)] = pre[sl][track]
                            yield line, track, pattern.data[sl][track]
                            continue
                        vals = _cell_values(seed + (1 if idx >= first_len else 0), line, track, w.nmods)
                        supplied[(line, track)] = vals
                        yield line, track, _make_note(style, vals, pattern, line, track)
                    if mode == "raise_after_last":
                        observe(pattern)
                        fail("cb_raise_after_last")

                call = lambda: w.pattern.set_via_gen(gen)  # noqa: E731

            try:
                call()
                outcome = "completed"
            except (KeyboardInterrupt, HarnessTimeout):
                raise
            except CbError:
                outcome = "failed:Exception"
            except SimCancel:
                outcome = "failed:BaseException"
            except BaseException as e:
                if raised[0] is not None:
                    # the callable's own exception (possibly converted by the iteration
                    # protocol, e.g. StopIteration inside a generator -> RuntimeError)
                    outcome = "failed:" + type(e).__name__
                else:
                    outcome = "failed:other:" + type(e).__name__
            if outcome == "completed" and raised[0] is not None:
                # the failure was swallowed: whatever the setter reports, the statement's
                # "leaves the pattern's contents exactly as before" still applies
                outcome = "failed:swallowed:" + raised[0]
                probes["callable_failure_swallowed"] = probes.get("callable_failure_swallowed", 0) + 1
            crashed = outcome != "completed"
            if mode != "complete" and not crashed:
                probes["planned_crash_not_reached"] = probes.get("planned_crash_not_reached", 0) + 1
            if outcome.startswith("failed:other"):
                # the library itself raised although the callable did not: report, then treat as failed edit
                violations.append(_viol("unexpected_exception", setter=setter, detail={"op": i, "outcome": outcome}))
            if observed and not all(observed):
                violations.append(_viol("callback_saw_preedit_state", setter=setter, detail={"op": i}))
            if crashed:
                w.model = pre
                _check_contents(w, violations, "failed_edit_leaves_pattern_unchanged", i, setter + ":" + mode)
                # ownership must not have been damaged by a failed edit either
                if not owned_before:
                    _check_ownership(w, violations, i, setter + ":failed", {})
            else:
                for (l, t), vals in supplied.items():
                    w.model[l][t] = vals
                _check_contents(w, violations, "successful_edit_installs_supplied_notes", i, setter)
                _check_ownership(w, violations, i, setter, supplied)
            pos = "none" if not crashed else ("first" if at == 0 else "last" if at >= ncells - 1 else "interior")
            shape = "1x1" if ncells == 1 else "row" if lines == 1 else "col" if tracks == 1 else "grid"
            states.append(seeds.h64(shape, w.project is not None, setter, mode, pos, outcome))
            log.append((i, "bulk", setter, mode, at, style, outcome, entered[0], seeds.digest(_snapshot(w.pattern))))
        else:
            raise ValueError(op)
    nontrivial = [seeds.h64(case["ops"])] if any(x[1] == "bulk" for x in log) else []
    return {
        "violations": violations,
        "fired": fired,
        "probes": probes,
        "nontrivial": nontrivial,
        "states": states,
        "digest": seeds.digest(log),
        "outcome": log[-2:],
        "steps": len(case["ops"]),
    }


# ---------------------------------------------------------------------------

SHAPES_QUICK = [(1, 1), (1, 4), (4, 1), (2, 2), (3, 4), (4, 8), (8, 3)]
SHAPES_THOROUGH = SHAPES_QUICK + [(16, 8), (5, 7), (32, 4), (64, 2), (7, 16), (64, 16)]


def sweep_cases(lines, tracks, attached, dense=128):
    ncells = lines * tracks
    if ncells <= dense:
        idxs = list(range(ncells))
    else:
        idxs = sorted({0, 1, 2, ncells // 3, ncells // 2, ncells - 2, ncells - 1})
    setup = {"k": "setup", "lines": lines, "tracks": tracks, "attached": attached, "nmods": 3, "fill": 7}
    for setter in ("fn", "gen"):
        for style in (0, 1, 2, 3, 4, 5):
            yield [setup, {"k": "bulk", "setter": setter, "plan": {"mode": "complete"}, "seed": 11, "style": style}]
        # a rotation (existing Note objects moved to other cells), then every kind of follow-up edit
        rot = {"k": "bulk", "setter": setter, "plan": {"mode": "complete"}, "seed": 41, "style": 4}
        for setter2 in ("fn", "gen"):
            for at in sorted({0, ncells // 2, ncells - 1}):
                yield [setup, rot, {"k": "bulk", "setter": setter2, "plan": {"mode": "raise", "at": at}, "seed": 43, "style": 0}]
                yield [setup, rot, {"k": "bulk", "setter": setter2, "plan": {"mode": "cancel", "at": at}, "seed": 43, "style": 4}]
            yield [setup, rot, {"k": "bulk", "setter": "gen", "plan": {"mode": "complete", "subset": max(1, ncells // 2), "shuffle": True}, "seed": 47, "style": 0}, rot]
            yield [setup, rot, rot, {"k": "bulk", "setter": setter2, "plan": {"mode": "complete"}, "seed": 53, "style": 2}]
        modes = ("raise", "cancel") if setter == "fn" else ("raise", "cancel", "mutate_raise")
        for mode in modes:
            for at in idxs:
                yield [setup, {"k": "bulk", "setter": setter, "plan": {"mode": mode, "at": at}, "seed": 13, "style": at % 4},
                       {"k": "bulk", "setter": "gen" if setter == "fn" else "fn", "plan": {"mode": "complete"}, "seed": 17, "style": 1}]
        # every exception type at the first, a middle and the last cell (and spread over all cells)
        for j, exc in enumerate(EXC_TYPES):
            for at in sorted({0, ncells // 2, ncells - 1, j % ncells}):
                yield [setup, {"k": "bulk", "setter": setter, "plan": {"mode": "raise", "at": at, "exc": exc.__name__}, "seed": 37, "style": j % 4}]
        if setter == "gen":
            for mode in ("raise_before_first", "raise_after_last"):
                yield [setup, {"k": "bulk", "setter": "gen", "plan": {"mode": mode}, "seed": 19, "style": 0}]
            for sub in sorted({0, 1, ncells // 2, ncells}):
                yield [setup, {"k": "bulk", "setter": "gen", "plan": {"mode": "complete", "subset": sub, "shuffle": True}, "seed": 23, "style": 0}]
                yield [setup, {"k": "bulk", "setter": "gen", "plan": {"mode": "complete", "subset": sub, "dup": True}, "seed": 29, "style": 1}]
                yield [setup, {"k": "bulk", "setter": "gen", "plan": {"mode": "raise", "at": max(0, sub - 1), "subset": sub, "shuffle": True}, "seed": 31, "style": 2}]


def generate(seed, i, tier="quick"):
    r = seeds.rng(seed, "c19hist", i)
    big = tier == "thorough" and r.random() < 0.05
    lines = r.randint(1, 64 if big else 16)
    tracks = r.randint(1, 16 if big else 8)
    ncells = lines * tracks
    ops = [{"k": "setup", "lines": lines, "tracks": tracks, "attached": r.random() < 0.6, "nmods": r.randint(0, 8), "fill": r.randrange(1 << 30)}]
    for _ in range(r.randint(1, 6)):
        if r.random() < 0.3:
            ops.append({"k": "cell", "line": r.randrange(64), "track": r.randrange(32), "seed": r.randrange(1 << 30)})
        setter = r.choice(("fn", "gen"))
        modes = ["complete", "complete", "raise", "cancel"]
        if setter == "gen":
            modes += ["mutate_raise", "raise_before_first", "raise_after_last"]
        mode = r.choice(modes)
        plan = {"mode": mode, "at": r.choice([0, ncells - 1, r.randrange(ncells)])}
        if mode in ("raise", "raise_before_first", "raise_after_last", "mutate_raise") and r.random() < 0.6:
            plan["exc"] = r.choice(EXC_TYPES).__name__
        if setter == "gen":
            if r.random() < 0.5:
                plan["shuffle"] = True
            if r.random() < 0.4:
                plan["subset"] = r.randint(0, ncells)
                plan["at"] = r.randrange(max(plan["subset"], 1))
            if r.random() < 0.2:
                plan["dup"] = True
        ops.append({"k": "bulk", "setter": setter, "plan": plan, "seed": r.randrange(1 << 30), "style": r.randrange(6), "observe": r.random() < 0.8})
    noise.sprinkle(r, ops)
    return {"property": PROPERTY, "world": "bulk", "ops": ops}


def plan(tier, seed):
    units = []
    shapes = SHAPES_QUICK if tier == "quick" else SHAPES_THOROUGH
    for (l, t) in shapes:
        for attached in (True, False):
            units.append({"kind": "sweep", "lines": l, "tracks": t, "attached": attached})
    n = 2400 if tier == "quick" else 200000
    per = 100
    for i in range(0, n, per):
        units.append({"kind": "seeded", "seed": seed, "first": i, "count": min(per, n - i), "tier": tier})
    return units


def run_unit(unit):
    acc = Acc()
    if unit["kind"] == "sweep":
        for ops in sweep_cases(unit["lines"], unit["tracks"], unit["attached"]):
            case = {"property": PROPERTY, "world": "bulk", "ops": ops}
            acc.run(execute, case)
        acc.probes["crash_sweep_complete_for_shape"] += 1 if unit["lines"] * unit["tracks"] <= 128 else 0
    else:
        for i in range(unit["first"], unit["first"] + unit["count"]):
            case = generate(unit["seed"], i, unit.get("tier", "quick"))
            acc.run(execute, case, isolate=True)
    return acc.to_dict()


def shrink_candidates(case):
    ops = case["ops"]
    for i, op in enumerate(ops):
        if op["k"] == "setup":
            for key, lo in (("lines", 1), ("tracks", 1), ("nmods", 0)):
                if op.get(key, lo) > lo:
                    for v in (lo, op[key] // 2, op[key] - 1):
                        if lo <= v < op[key]:
                            yield dict(case, ops=ops[:i] + [dict(op, **{key: v})] + ops[i + 1 :])
            if op.get("attached"):
                yield dict(case, ops=ops[:i] + [dict(op, attached=False)] + ops[i + 1 :])
        if op["k"] == "bulk":
            plan = op.get("plan", {})
            for key in ("shuffle", "dup", "subset"):
                if plan.get(key) is not None and plan.get(key) is not False:
                    p2 = {k: v for k, v in plan.items() if k != key}
                    yield dict(case, ops=ops[:i] + [dict(op, plan=p2)] + ops[i + 1 :])
            if plan.get("at", 0) > 0:
                yield dict(case, ops=ops[:i] + [dict(op, plan=dict(plan, at=0))] + ops[i + 1 :])
            if op.get("style", 0) != 0:
                yield dict(case, ops=ops[:i] + [dict(op, style=0)] + ops[i + 1 :])
