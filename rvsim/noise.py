"""Background noise shared by every history world: an unrelated load elsewhere in the process,
usually cut short by an injected fault, whose result is thrown away.

A property about one project or pattern must not depend on what else the process has loaded, or
failed to load, in the meantime (process-global switches left set by a failing load, memoised
parse results shared between loads, lazily captured state).  The op is

    {"k": "bgload", "file": <file spec>, "faults": [<fault>, ...]}

and is interleaved with the ordinary ops of a history by `sprinkle`.  Nothing is asserted about
the background load itself (that is C18's business); only the world's own oracles judge.
"""
from collections import Counter

from . import chunkio, env, files, seeds
from .simio import Ctx, HarnessTimeout, active, READ_FAULTS, SEEK_FAULTS

from rv.readers.reader import read_sunvox_file

DAMAGE_IDS = ("SLNK", "SLNK", "SLnK", "CVAL", "STYP", "SFFF", "SNAM", "CHNM", "CHDT", "CMID", "PDTA", "PFFF", "SFIN", "SREL", "SSCL", "SMII", "SMIB")
FIRED = Counter()
LOG = []


def take():
    out = dict(FIRED), list(LOG)
    FIRED.clear()
    del LOG[:]
    return out


def run(op):
    try:
        data = files.materialize(op["file"])
    except (KeyboardInterrupt, HarnessTimeout):
        raise
    except Exception as e:
        if not env.raised_in_rv(e):
            raise
        # the library could not even build / save the background file (a generated one): no background
        # load then; judging that is the business of the worlds that own saving, not of the noise
        FIRED["background_file_unbuildable"] += 1
        LOG.append((files.spec_label(op["file"]), "unbuildable:" + type(e).__name__))
        return "unbuildable:" + type(e).__name__
    faults = []
    for f in op.get("faults", ()):
        if f["kind"] == "trunc_boundary":
            # the file ends exactly between two chunks (a copy that stopped at a record boundary)
            offs = chunkio.boundaries(data)[1:-1] or [len(data) // 2]
            f = {"kind": "trunc", "at": offs[f["at"] % len(offs)]}
        elif f["kind"] == "flip" and f["at"] in chunkio.alloc_field_offsets(data):
            continue  # would ask the loader for up to 2**32 pattern rows: a resource question, not this one
        faults.append(f)
    ctx = Ctx(faults)
    out = "loaded"
    try:
        with active(ctx):
            read_sunvox_file(ctx.new_stream(data, "arg"))
    except (KeyboardInterrupt, HarnessTimeout):
        raise
    except BaseException as e:
        if not ctx.fired and not env.raised_in_rv(e):
            raise  # a harness bug is never an outcome
        out = "raised:" + type(e).__name__
    env.LOG.take()
    FIRED["background_load_" + ("completed" if out == "loaded" else "aborted")] += 1
    for kind, _sid, _call, _idx in ctx.fired:
        FIRED["background_" + kind] += 1
    LOG.append((files.spec_label(op["file"]), out))
    return out


def gen(r):
    names = files.fixture_names()
    projects = [n for n in names if n.endswith(".sunvox")]
    u = r.random()
    if u < 0.5 and projects:
        spec = {"src": "fixture", "name": r.choice(projects)}
    elif u < 0.75:
        spec = {"src": "fixture", "name": r.choice(names)}
    else:
        spec = {"src": "gen", "seed": r.randrange(1 << 20), "nest": r.random() < 0.5, "n": 12, "layout": 2}
    perturb = []
    if r.random() < 0.4:
        perturb.append(["vers", r.randrange(6)])
    if r.random() < 0.35:
        # a damaged file: stored bytes rewritten with the chunk framing intact (top-level or inside an embedded
        # container), the optional slot chunk missing
        for _ in range(r.choice((1, 1, 2))):
            cid = r.choice(DAMAGE_IDS)
            inner = ["payload", cid, r.randrange(64), r.randrange(4096), r.choice([0, 1, 0x7F, 0x80, 0xFF, r.randrange(256)])]
            perturb.append(["in", r.randrange(4), inner] if r.random() < 0.3 else inner)
        if r.random() < 0.4:
            perturb.append(["strip", "SLnK"])
    if perturb:
        spec["perturb"] = perturb
    faults = []
    if r.random() < (0.85 if not perturb or perturb[-1][0] == "vers" else 0.3):
        kind = r.choice(READ_FAULTS + READ_FAULTS + SEEK_FAULTS + ("trunc", "trunc", "trunc_boundary", "trunc_boundary", "flip"))
        if kind == "trunc":
            at = r.choice((r.randrange(1, 200), r.randrange(1, 3000), r.randrange(1, 40000)))
        elif kind == "trunc_boundary":
            at = r.randrange(10000)
        elif kind == "flip":
            at = r.choice((r.randrange(1, 200), r.randrange(1, 3000), r.randrange(1, 40000)))
        else:
            at = r.choice((r.randrange(8), r.randrange(60), r.randrange(60), r.randrange(600)))
        faults.append({"kind": kind, "at": at} if kind != "flip" else {"kind": kind, "at": at, "xor": r.randrange(1, 256)})
    return {"k": "bgload", "file": spec, "faults": faults}


def sprinkle(r, ops, start=1, p=0.2):
    """Swarm: in a fraction p of the histories, one or two background loads at random positions."""
    if r.random() >= p:
        return ops
    for _ in range(r.choice((1, 1, 2))):
        ops.insert(r.randint(min(start, len(ops)), len(ops)), gen(r))
    return ops
