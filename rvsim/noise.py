"""Background noise shared by every history world: an unrelated load elsewhere in the process,
usually cut short by an injected fault, whose result is thrown away.

A property about one project or pattern must not depend on what else the process has loaded, or
failed to load, in the meantime (process-global switches left set by a failing load, memoised
parse results shared between loads, lazily captured state).  The op is

    {"k": "bgload", "file": <file spec>, "faults": [<fault>, ...]}

and is interleaved with the ordinary ops of a history by `sprinkle`.  Nothing is asserted about
the background load itself (that is C18's business); only the world's own oracles judge.
"""
from collections import Counter

from . import env, files, seeds
from .simio import Ctx, HarnessTimeout, active, READ_FAULTS, SEEK_FAULTS

from rv.readers.reader import read_sunvox_file

FIRED = Counter()
LOG = []


def take():
    out = dict(FIRED), list(LOG)
    FIRED.clear()
    del LOG[:]
    return out


def run(op):
    data = files.materialize(op["file"])
    ctx = Ctx(op.get("faults", ()))
    out = "loaded"
    try:
        with active(ctx):
            read_sunvox_file(ctx.new_stream(data, "arg"))
    except (KeyboardInterrupt, HarnessTimeout):
        raise
    except BaseException as e:
        if not ctx.fired and not env.raised_in_rv(e):
            raise  # a harness bug is never an outcome
        out = "raised:" + type(e).__name__
    env.LOG.take()
    FIRED["background_load_" + ("completed" if out == "loaded" else "aborted")] += 1
    for kind, _sid, _call, _idx in ctx.fired:
        FIRED["background_" + kind] += 1
    LOG.append((files.spec_label(op["file"]), out))
    return out


def gen(r):
    names = files.fixture_names()
    projects = [n for n in names if n.endswith(".sunvox")]
    u = r.random()
    if u < 0.5 and projects:
        spec = {"src": "fixture", "name": r.choice(projects)}
    elif u < 0.75:
        spec = {"src": "fixture", "name": r.choice(names)}
    else:
        spec = {"src": "gen", "seed": r.randrange(1 << 20), "nest": r.random() < 0.5, "n": 12, "layout": 2}
    if r.random() < 0.4:
        spec["perturb"] = [["vers", r.randrange(6)]]
    faults = []
    if r.random() < 0.85:
        kind = r.choice(READ_FAULTS + READ_FAULTS + SEEK_FAULTS + ("trunc", "trunc"))
        if kind == "trunc":
            at = r.choice((r.randrange(1, 200), r.randrange(1, 3000), r.randrange(1, 40000)))
        else:
            at = r.choice((r.randrange(8), r.randrange(60), r.randrange(60), r.randrange(600)))
        faults.append({"kind": kind, "at": at})
    return {"k": "bgload", "file": spec, "faults": faults}


def sprinkle(r, ops, start=1, p=0.2):
    """Swarm: in a fraction p of the histories, one or two background loads at random positions."""
    if r.random() >= p:
        return ops
    for _ in range(r.choice((1, 1, 2))):
        ops.insert(r.randint(min(start, len(ops)), len(ops)), gen(r))
    return ops
