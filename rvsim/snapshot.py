"""Observable state of rv objects as canonical plain data.

An allow-list: only public, serialized attributes (the attribute catalogue of DESIGN
Appendix A).  Never ``__dict__``: loader bookkeeping (controllers_loaded, _reader_chnk,
is_legacy, legacy_chunks, Envelope.loaded, _legacy_*, loaded_sunvox_version, defaultdict
membership of controller_midi_maps) is not observable state.

``snapshot(obj)`` -> flat dict  path(tuple) -> canonical value.
"""
import enum
import struct

from . import env  # noqa: F401
from rv.modules.metamodule import MetaModule
from rv.modules.sampler import Sampler
from rv.pattern import Pattern, PatternClone
from rv.project import Project
from rv.synth import Synth

PROJECT_FIELDS = (
    "name", "flags", "initial_bpm", "initial_tpl", "global_volume", "time_grid", "time_grid2",
    "modules_scale", "modules_zoom", "modules_x_offset", "modules_y_offset", "modules_layer_mask",
    "modules_current_layer", "timeline_position", "restart_position", "selected_module",
    "selected_generator", "current_pattern", "current_track", "current_line",
    "receive_sync_midi", "receive_sync_other", "based_on_version",
)
MODULE_FIELDS = (
    "name", "flags", "mod_finetune", "mod_relative_note", "scale", "color",
    "midi_in_always", "midi_in_channel", "midi_out_name", "midi_out_channel",
    "midi_out_bank", "midi_out_program",
)
MODULE_FIELDS_IN_PROJECT = ("x", "y", "layer")  # + visualization
PATTERN_FIELDS = ("name", "tracks", "lines", "y_size", "flags_PFLG", "icon", "fg_color", "bg_color", "flags_PFFF", "x", "y")
CLONE_FIELDS = ("source", "flags_PFFF", "x", "y")
SAMPLE_FIELDS = (
    "data", "loop_start", "loop_len", "volume", "finetune", "format", "channels", "rate",
    "loop_type", "loop_sustain", "panning", "relative_note", "reserved2", "name", "start_pos",
)
ENVELOPE_FIELDS = (
    "points", "sustain_point", "loop_start_point", "loop_end_point", "enable", "sustain", "loop",
    "ctl_index", "gain_pct", "velocity",
)
SAMPLER_FIELDS = (
    "instrument_name", "version", "max_version", "volume_old", "ins_finetune", "ins_relative_note",
    "editor_cursor", "editor_selected_size", "unused1", "unused2", "unused3", "unused4", "unused5", "unused6",
)


def canon(v):
    if isinstance(v, bool) or v is None:
        return v
    if isinstance(v, int):  # incl. IntEnum members: SyncCommand.tempo == 2 is what a user observes
        return int(v)
    if isinstance(v, enum.Enum):
        return [type(v).__name__, v.value]
    if isinstance(v, float):
        if v.is_integer() and abs(v) < (1 << 53):
            return int(v)  # 0 == 0.0 for a user
        return "f32:" + struct.pack("<f", v).hex()
    if isinstance(v, (bytes, bytearray)):
        return "hex:" + bytes(v).hex()
    if isinstance(v, str):
        return v
    if isinstance(v, (tuple, list)):
        return [canon(x) for x in v]
    if hasattr(v, "value") and isinstance(getattr(v, "value"), int):  # Visualization
        return int(v.value)
    return "<%s>" % type(v).__name__


def strip_links(lst):
    lst = list(lst)
    while lst and lst[-1] == -1:
        lst.pop()
    return lst


def attached_controllers(mod):
    return [n for n, c in mod.controllers.items() if c.attached(mod)]


def snap_module(mod, out, pre, in_project, depth=0):
    out[pre + ("type",)] = type(mod).__name__
    out[pre + ("mtype",)] = mod.mtype
    for f in MODULE_FIELDS:
        if f == "scale" and type(mod).__name__ == "Smooth":
            continue  # the controller of the same name shadows the common attribute
        out[pre + (f,)] = canon(getattr(mod, f))
    # placement and visualization are attributes of every module; they are *serialized*
    # only inside a project, so stand-alone synth round trips do not compare them
    for f in MODULE_FIELDS_IN_PROJECT:
        out[pre + (("unsaved",) if not in_project else ()) + (f,)] = canon(getattr(mod, f))
    try:
        out[pre + (("unsaved",) if not in_project else ()) + ("visualization",)] = int(mod.visualization)
    except TypeError:
        out[pre + (("unsaved",) if not in_project else ()) + ("visualization",)] = "<%s>" % type(mod._visualization).__name__
    if in_project:
        out[pre + ("links", "in")] = strip_links(mod.in_links)
        out[pre + ("links", "in_slots")] = strip_links(mod.in_link_slots)
        out[pre + ("links", "out")] = strip_links(mod.out_links)
        out[pre + ("links", "out_slots")] = strip_links(mod.out_link_slots)
    att = attached_controllers(mod)
    names = list(mod.controllers) if isinstance(mod, Sampler) else att
    for n in names:
        out[pre + ("ctl", n)] = canon(mod.controller_values.get(n))
    for n in mod.options:
        out[pre + ("opt", n)] = canon(getattr(mod, n))
    for n in att:
        mm = mod.controller_midi_maps[n]
        out[pre + ("cmid", n)] = [mm.channel, mm.message_type.value, mm.message_parameter, mm.slope.value]
    snap_payload(mod, out, pre, depth)


def snap_payload(mod, out, pre, depth):
    t = type(mod).__name__
    if t in ("Generator", "AnalogGenerator"):
        dw = mod.drawn_waveform
        out[pre + ("drawn_waveform", "samples")] = canon(dw.samples)
        out[pre + ("drawn_waveform", "format")] = canon(dw.format)
        out[pre + ("drawn_waveform", "freq")] = canon(dw.freq)
    elif t == "Fmx":
        out[pre + ("custom_waveform",)] = canon(mod.custom_waveform.values)
    elif t == "MultiSynth":
        out[pre + ("nv_curve",)] = canon(mod.nv_curve.values)
        out[pre + ("vv_curve",)] = canon(mod.vv_curve.values)
        out[pre + ("np_curve",)] = canon(mod.np_curve.values)
    elif t == "MultiCtl":
        out[pre + ("curve",)] = canon(mod.curve.values)
        for i, m in enumerate(mod.mappings.values):
            out[pre + ("mapping", i)] = [m.min, m.max, m.controller, m.flags, m.future_use2, m.future_use3, m.future_use4, m.future_use5]
    elif t == "WaveShaper":
        out[pre + ("curve",)] = canon(mod.curve.values)
    elif t == "SpectraVoice":
        out[pre + ("harmonic_freqs",)] = canon(mod.harmonic_freqs.values)
        out[pre + ("harmonic_volumes",)] = canon(mod.harmonic_volumes.values)
        out[pre + ("harmonic_widths",)] = canon(mod.harmonic_widths.values)
        out[pre + ("harmonic_types",)] = canon(mod.harmonic_types.values)
    elif t == "VorbisPlayer":
        out[pre + ("data",)] = canon(mod.data or b"")  # None and b"" both mean "no data" (the writer emits an empty payload for either)
    elif t == "MetaModule":
        out[pre + ("mappings",)] = [[m.module, m.controller] for m in mod.mappings.values]
        for i, ud in enumerate(mod.user_defined):
            if ud.attached(mod):
                out[pre + ("label", i)] = canon(ud.label)
        if mod.project is not None:
            snap_project(mod.project, out, pre + ("project",), depth + 1)
        else:
            out[pre + ("project",)] = None
    elif t == "Sampler":
        snap_sampler(mod, out, pre, depth)


def snap_sampler(mod, out, pre, depth):
    for f in SAMPLER_FIELDS:
        out[pre + (f,)] = canon(getattr(mod, f))
    out[pre + ("note_samples",)] = [int(v) for v in mod.note_samples.values()]
    for i, s in enumerate(mod.samples):
        if s is None:
            continue
        for f in SAMPLE_FIELDS:
            out[pre + ("sample", i, f)] = canon(getattr(s, f))
    out[pre + ("sample_slots",)] = [i for i, s in enumerate(mod.samples) if s is not None]
    envs = [("volume_envelope", mod.volume_envelope), ("panning_envelope", mod.panning_envelope), ("pitch_envelope", mod.pitch_envelope)]
    envs += [("effect_control_envelope%d" % i, e) for i, e in enumerate(mod.effect_control_envelopes)]
    for name, e in envs:
        for f in ENVELOPE_FIELDS:
            out[pre + (name, f)] = canon(getattr(e, f))
    if mod.effect is None:
        out[pre + ("effect",)] = None
    else:
        snap_synth(mod.effect, out, pre + ("effect",), depth + 1)


def cells(pattern):
    return [[int(n.note), n.vel, n.module, n.ctl, n.val] for line in pattern.data for n in line]


def snap_pattern(pat, out, pre):
    if pat is None:
        out[pre] = None
        return
    if isinstance(pat, PatternClone):
        out[pre + ("kind",)] = "clone"
        for f in CLONE_FIELDS:
            out[pre + (f,)] = canon(getattr(pat, f))
        return
    out[pre + ("kind",)] = "pattern"
    for f in PATTERN_FIELDS:
        out[pre + (f,)] = canon(getattr(pat, f))
    out[pre + ("cells",)] = cells(pat)
    # every note of the grid answers for this pattern (a back reference: observable through note.pattern /
    # note.project / note.mod; True in every state the library is supposed to reach)
    out[pre + ("notes_owned",)] = all(n.pattern is pat for line in pat.data for n in line)


_ACTIVE = []  # projects currently being walked (object graphs must be trees; a cycle is reported, not followed)


def snap_project(p, out, pre=(), depth=0):
    if any(p is q for q in _ACTIVE) or depth > 8:
        out[pre + ("kind",)] = "<cycle: project already being walked>"
        return
    _ACTIVE.append(p)
    try:
        _snap_project(p, out, pre, depth)
    finally:
        _ACTIVE.pop()


def _snap_project(p, out, pre=(), depth=0):
    out[pre + ("kind",)] = "Project"
    for f in PROJECT_FIELDS:
        out[pre + (f,)] = canon(getattr(p, f))
    mods = list(p.modules)
    out[pre + ("nmodules",)] = len(mods)
    for i, m in enumerate(mods):
        if m is None:
            out[pre + ("mod", i)] = None
        else:
            snap_module(m, out, pre + ("mod", i), True, depth)
            # back references (observable through int(m), note.mod = m, m.parent): True in every state the
            # library is supposed to reach
            out[pre + ("mod", i, "index_and_parent_coherent")] = m.index == i and m.parent is p
    out[pre + ("npatterns",)] = len(p.patterns)
    for i, pat in enumerate(p.patterns):
        snap_pattern(pat, out, pre + ("pat", i))
        if pat is not None:
            out[pre + ("pat", i, "project_is_owner")] = pat.project is p


def snap_synth(s, out, pre=(), depth=0):
    out[pre + ("kind",)] = "Synth"
    if s.module is None:
        out[pre + ("module",)] = None
    else:
        snap_module(s.module, out, pre + ("module",), False, depth)


def snapshot(obj):
    out = {}
    if isinstance(obj, Project):
        snap_project(obj, out)
    elif isinstance(obj, Synth):
        snap_synth(obj, out)
    elif isinstance(obj, (Pattern, PatternClone)):
        snap_pattern(obj, out, ("pattern",))
    elif obj is None:
        out[("kind",)] = None
    else:  # a module
        snap_module(obj, out, ("module",), obj.parent is not None)
    return out


def diff(a, b, limit=50):
    """-> list of (path, a_value, b_value) for every differing path (missing = '<absent>')."""
    out = []
    for k in a:
        if k not in b:
            out.append((k, a[k], "<absent>"))
        elif a[k] != b[k]:
            out.append((k, a[k], b[k]))
    for k in b:
        if k not in a:
            out.append((k, "<absent>", b[k]))
    out.sort(key=lambda t: repr(t[0]))
    return out[:limit]


def path_class(path):
    """Catalogue path with positional indices abstracted away: the signature's 'path'."""
    return ".".join("*" if isinstance(x, int) else str(x) for x in path)


def short(v, n=80):
    s = repr(v)
    return s if len(s) <= n else s[: n - 3] + "..."


def first_index(a, b):
    if isinstance(a, list) and isinstance(b, list):
        for i, (x, y) in enumerate(zip(a, b)):
            if x != y:
                return i
        return min(len(a), len(b))
    return None


# ---------------------------------------------------------------------------
# cross-check of the allow-list against vars(obj): what is NOT in the snapshot, and why

EXCLUSIONS = {
    "controller_values": "covered as ctl.<name>",
    "option_values": "covered as opt.<name> (through the descriptors, i.e. the logical value)",
    "controller_midi_maps": "covered as cmid.<name>",
    "in_links": "covered as links.in", "in_link_slots": "covered as links.in_slots",
    "out_links": "covered as links.out", "out_link_slots": "covered as links.out_slots",
    "index": "position in the project's module list (the snapshot path carries it)",
    "parent": "back reference to the owning project",
    "controllers_loaded": "loader bookkeeping (which controllers have been assigned)",
    "_reader_chnk": "loader bookkeeping",
    "_visualization": "covered as visualization",
    "is_legacy": "loader bookkeeping (Sampler)", "legacy_chunks": "loader bookkeeping (Sampler)", "_unknown_0x101": "loader bookkeeping (Sampler)",
    "samples": "covered as sample.<i>.* and sample_slots", "effect_control_envelopes": "covered as effect_control_envelope<i>.*",
    "volume_envelope": "covered", "panning_envelope": "covered", "pitch_envelope": "covered", "note_samples": "covered", "effect": "covered",
    "harmonics": "derived view of the four harmonic arrays (covered as harmonic_*)", "h_freq_hz": "mirror of the selected harmonic",
    "mappings": "covered as mapping.<i> / mappings", "curve": "covered", "user_defined": "covered as ctl.user_defined_<n> and label.<i>",
    "project": "covered recursively (MetaModule) / back reference (Pattern)",
    "drawn_waveform": "covered", "custom_waveform": "covered", "nv_curve": "covered", "vv_curve": "covered", "np_curve": "covered",
    "harmonic_freqs": "covered", "harmonic_volumes": "covered", "harmonic_widths": "covered", "harmonic_types": "covered", "data": "covered",
    "modules": "covered as mod.<i>", "patterns": "covered as pat.<i>", "output": "modules[0]", "metamodule": "back reference",
    "sunvox_version": "the writer's constant", "loaded_sunvox_version": "loader bookkeeping", "_data": "covered as cells",
}


def catalogue_exclusions():
    """-> {'excluded': {attr: reason}, 'unexplained': [type.attr, ...]}: every vars(obj) key of a
    default-constructed object of every type that the snapshot does not cover by name."""
    import rv.modules as M
    from rv.pattern import Pattern
    from rv.project import Project

    objs = [c() for c in sorted(M.MODULE_CLASSES.values(), key=lambda c: c.__name__)] + [Project(), Pattern()]
    excluded, unexplained = {}, []
    for o in objs:
        snap = snapshot(o)
        names = set()
        for path in snap:
            names.update(x for x in path if isinstance(x, str))
        for k in vars(o):
            if k in names or k.lstrip("_") in names:
                continue
            if k in EXCLUSIONS:
                excluded[k] = EXCLUSIONS[k]
            else:
                unexplained.append("%s.%s" % (type(o).__name__, k))
    return {"excluded": dict(sorted(excluded.items())), "unexplained": sorted(unexplained)}
