"""Hand-made mutants for the sensitivity self-test: (name, [(file relative to
src/python, old text, new text), ...]).  Each keeps the 170 pinned tests green (checked
once when the mutant was written) and breaks exactly the property it is listed under."""

MUTANTS = {}

MUTANTS["C18"] = [
    (
        "override: no try/finally",
        [("rv/errors.py", "    try:\n        yield\n    finally:\n        RAISE_CONTROLLER_VALUE_ERRORS = old_raise_errors",
          "    yield\n    RAISE_CONTROLLER_VALUE_ERRORS = old_raise_errors")],
    ),
    (
        "override: restore constant True",
        [("rv/errors.py", "    finally:\n        RAISE_CONTROLLER_VALUE_ERRORS = old_raise_errors",
          "    finally:\n        RAISE_CONTROLLER_VALUE_ERRORS = True")],
    ),
    (
        "override: restore only on Exception",
        [("rv/errors.py", "    try:\n        yield\n    finally:\n        RAISE_CONTROLLER_VALUE_ERRORS = old_raise_errors",
          "    try:\n        yield\n    except Exception:\n        RAISE_CONTROLLER_VALUE_ERRORS = old_raise_errors\n        raise\n    RAISE_CONTROLLER_VALUE_ERRORS = old_raise_errors")],
    ),
    (
        "reader: no finally close",
        [("rv/readers/reader.py", "        try:\n            reader = InitialReader(file_or_name)\n            return reader.object\n        finally:\n            if close:\n                file_or_name.close()",
          "        reader = InitialReader(file_or_name)\n        obj = reader.object\n        if close:\n            file_or_name.close()\n        return obj")],
    ),
    (
        "reader: close only on Exception",
        [("rv/readers/reader.py", "        try:\n            reader = InitialReader(file_or_name)\n            return reader.object\n        finally:\n            if close:\n                file_or_name.close()",
          "        try:\n            reader = InitialReader(file_or_name)\n            obj = reader.object\n        except Exception:\n            if close:\n                file_or_name.close()\n            raise\n        if close:\n            file_or_name.close()\n        return obj")],
    ),
    (
        "reader: sniffs the magic before entering try/finally",
        [("rv/readers/reader.py", "            close = True\n        try:",
          "            close = True\n            file_or_name.read(4)\n            file_or_name.seek(0)\n        try:")],
    ),
    (
        "reader: closes only when an object was produced",
        [("rv/readers/reader.py", "        try:\n            reader = InitialReader(file_or_name)\n            return reader.object\n        finally:\n            if close:\n                file_or_name.close()",
          "        reader = None\n        try:\n            reader = InitialReader(file_or_name)\n            return reader.object\n        finally:\n            if close and reader is not None and reader._object is not None:\n                file_or_name.close()")],
    ),
    (
        "override: saved value recorded only at depth 0, depth leaks on failure (needs a failed load, then a load with the other flag value)",
        [("rv/errors.py", "    global RAISE_CONTROLLER_VALUE_ERRORS\n    old_raise_errors = RAISE_CONTROLLER_VALUE_ERRORS\n    RAISE_CONTROLLER_VALUE_ERRORS = new_value\n    try:\n        yield\n    finally:\n        RAISE_CONTROLLER_VALUE_ERRORS = old_raise_errors",
          "    global RAISE_CONTROLLER_VALUE_ERRORS, _depth, _saved\n    if _depth == 0:\n        _saved = RAISE_CONTROLLER_VALUE_ERRORS\n    old_raise_errors = RAISE_CONTROLLER_VALUE_ERRORS\n    _depth += 1\n    RAISE_CONTROLLER_VALUE_ERRORS = new_value\n    try:\n        yield\n        _depth -= 1\n    finally:\n        RAISE_CONTROLLER_VALUE_ERRORS = _saved if _depth <= 1 else old_raise_errors"),
         ("rv/errors.py", "class RadiantVoicesError(Exception):\n    pass", "_depth = 0\n_saved = True\n\n\nclass RadiantVoicesError(Exception):\n    pass")],
    ),
]

MUTANTS["C19"] = [
    (
        "set_via_fn installs the working copy before the loop",
        [("rv/pattern.py", "        new = self._copy_data()\n        for line in range(self.lines):\n            for track in range(self.tracks):\n                new[line][track] = fn(self, line, track)\n        self._install_data(new)",
          "        new = self._copy_data()\n        self._install_data(new)\n        for line in range(self.lines):\n            for track in range(self.tracks):\n                new[line][track] = fn(self, line, track)\n        self._install_data(new)")],
    ),
    (
        "set_via_gen works on the live grid (alias)",
        [("rv/pattern.py", "        new = self._copy_data()\n        for line, track, note in gen(self, new):",
          "        new = self.data\n        for line, track, note in gen(self, new):")],
    ),
    (
        "shallow copy of the grid (rows copied, notes shared)",
        [("rv/pattern.py", "                copy = note.clone()\n                copy.pattern = self\n                new_line.append(copy)",
          "                new_line.append(note)")],
    ),
    (
        "set_via_fn writes in place, rolls back only on Exception",
        [("rv/pattern.py", "        new = self._copy_data()\n        for line in range(self.lines):\n            for track in range(self.tracks):\n                new[line][track] = fn(self, line, track)\n        self._install_data(new)",
          "        old = [row[:] for row in self.data]\n        new = self.data\n        try:\n            for line in range(self.lines):\n                for track in range(self.tracks):\n                    new[line][track] = fn(self, line, track)\n        except Exception:\n            self._data = old\n            raise\n        self._install_data(new)")],
    ),
    (
        "set_via_gen: the last yielded note is dropped",
        [("rv/pattern.py", "        for line, track, note in gen(self, new):\n            new[line][track] = note\n        self._install_data(new)",
          "        pending = None\n        for line, track, note in gen(self, new):\n            if pending is not None:\n                new[pending[0]][pending[1]] = pending[2]\n            pending = (line, track, note)\n        self._install_data(new)")],
    ),
    (
        "installed notes are not re-owned (revert of the fix, install half)",
        [("rv/pattern.py", "        for line in new:\n            for note in line:\n                note.pattern = self\n        self._data = new",
          "        self._data = new")],
    ),
    (
        "copied notes lose their pattern, install re-owns only notes without a pattern",
        [("rv/pattern.py", "        for line in new:\n            for note in line:\n                note.pattern = self\n        self._data = new",
          "        for line in new:\n            for note in line:\n                if note.pattern is None:\n                    note.pattern = self\n        self._data = new")],
    ),
    (
        "set_via_fn: a failure in the very last cell still installs",
        [("rv/pattern.py", "        new = self._copy_data()\n        for line in range(self.lines):\n            for track in range(self.tracks):\n                new[line][track] = fn(self, line, track)\n        self._install_data(new)",
          "        new = self._copy_data()\n        try:\n            for line in range(self.lines):\n                for track in range(self.tracks):\n                    new[line][track] = fn(self, line, track)\n        finally:\n            if line == self.lines - 1 and track == self.tracks - 1:\n                self._install_data(new)")],
    ),
]


MUTANTS["C19"].append(("revert fix 17f2810 (F6)", [("revert", "17f2810")]))

MUTANTS["C01"] = [
    ("revert fix 8b9bb2d (F1: name cut inside a character)", [("revert", "8b9bb2d")]),
    ("revert fixes 6d5271c+c8b47ec (F3+F4: sampler record)", [("revert", "6d5271c"), ("revert", "c8b47ec")]),
    ("revert fix 6d5271c only (F3: legacy replay of a loaded Sampler)", [("revert", "6d5271c")]),
]

_CONNECT_TAIL = "                in_link_idx = len(in_links)\n                in_links.append(from_mod_idx)\n                out_link_idx = len(out_links)\n                out_links.append(to_mod_idx)\n                in_link_slots.append(out_link_idx)\n                out_link_slots.append(in_link_idx)"

MUTANTS["C07"] = [
    ("revert fix F5 (early return in list loops)", [("revert", "41d7978")]),
    ("connect records the link on the incoming side only",
     [("rv/project.py", _CONNECT_TAIL, "                in_link_idx = len(in_links)\n                in_links.append(from_mod_idx)\n                in_link_slots.append(len(out_links))")]),
    ("disconnect blanks only the incoming end",
     [("rv/project.py", "                    in_links[in_link_idx] = -1\n                    out_links[out_link_idx] = -1\n                    in_link_slots[in_link_idx] = -1\n                    out_link_slots[out_link_idx] = -1",
       "                    in_links[in_link_idx] = -1\n                    in_link_slots[in_link_idx] = -1")]),
    ("out_link_slots records the out index instead of the in index",
     [("rv/project.py", "                out_link_slots.append(in_link_idx)", "                out_link_slots.append(out_link_idx)")]),
    ("already-connected test looks at the wrong index",
     [("rv/project.py", "                if from_mod_idx in in_links:  # Already connected?", "                if to_mod_idx in in_links:  # Already connected?")]),
    ("ownership check removed for the destination operand",
     [("rv/project.py", "                    to_mod_idx = self.module_index(to_module)\n                except ValueError:",
       "                    to_mod_idx = to_module.index\n                except ValueError:")]),
    ("reconnect after disconnect reuses the freed incoming slot but not the outgoing one",
     [("rv/project.py", "                in_link_idx = len(in_links)\n                in_links.append(from_mod_idx)",
       "                if -1 in in_links:\n                    in_link_idx = in_links.index(-1)\n                    in_links[in_link_idx] = from_mod_idx\n                    in_link_slots[in_link_idx] = len(out_links)\n                    out_links.append(to_mod_idx)\n                    out_link_slots.append(in_link_idx + 1)\n                    continue\n                in_link_idx = len(in_links)\n                in_links.append(from_mod_idx)")]),
    ("disconnect of a self pair clears the first matching out slot of any module with that index",
     [("rv/project.py", "                    out_link_idx = out_links.index(to_mod_idx)\n", "                    out_link_idx = out_links.index(to_mod_idx) if from_mod_idx != to_mod_idx else len(out_links) - 1\n")]),
]
