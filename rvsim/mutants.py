"""Hand-made mutants for the sensitivity self-test: (name, [(file relative to
src/python, old text, new text), ...]).  Each keeps the 170 pinned tests green (checked
once when the mutant was written) and breaks exactly the property it is listed under."""

MUTANTS = {}

MUTANTS["C18"] = [
    (
        "override: no try/finally",
        [("rv/errors.py", "    try:\n        yield\n    finally:\n        RAISE_CONTROLLER_VALUE_ERRORS = old_raise_errors",
          "    yield\n    RAISE_CONTROLLER_VALUE_ERRORS = old_raise_errors")],
    ),
    (
        "override: restore constant True",
        [("rv/errors.py", "    finally:\n        RAISE_CONTROLLER_VALUE_ERRORS = old_raise_errors",
          "    finally:\n        RAISE_CONTROLLER_VALUE_ERRORS = True")],
    ),
    (
        "override: restore only on Exception",
        [("rv/errors.py", "    try:\n        yield\n    finally:\n        RAISE_CONTROLLER_VALUE_ERRORS = old_raise_errors",
          "    try:\n        yield\n    except Exception:\n        RAISE_CONTROLLER_VALUE_ERRORS = old_raise_errors\n        raise\n    RAISE_CONTROLLER_VALUE_ERRORS = old_raise_errors")],
    ),
    (
        "reader: no finally close",
        [("rv/readers/reader.py", "        try:\n            reader = InitialReader(file_or_name)\n            return reader.object\n        finally:\n            if close:\n                file_or_name.close()",
          "        reader = InitialReader(file_or_name)\n        obj = reader.object\n        if close:\n            file_or_name.close()\n        return obj")],
    ),
    (
        "reader: close only on Exception",
        [("rv/readers/reader.py", "        try:\n            reader = InitialReader(file_or_name)\n            return reader.object\n        finally:\n            if close:\n                file_or_name.close()",
          "        try:\n            reader = InitialReader(file_or_name)\n            obj = reader.object\n        except Exception:\n            if close:\n                file_or_name.close()\n            raise\n        if close:\n            file_or_name.close()\n        return obj")],
    ),
    (
        "reader: sniffs the magic before entering try/finally",
        [("rv/readers/reader.py", "            close = True\n        try:",
          "            close = True\n            file_or_name.read(4)\n            file_or_name.seek(0)\n        try:")],
    ),
    (
        "reader: closes only when an object was produced",
        [("rv/readers/reader.py", "        try:\n            reader = InitialReader(file_or_name)\n            return reader.object\n        finally:\n            if close:\n                file_or_name.close()",
          "        reader = None\n        try:\n            reader = InitialReader(file_or_name)\n            return reader.object\n        finally:\n            if close and reader is not None and reader._object is not None:\n                file_or_name.close()")],
    ),
    (
        "override: saved value recorded only at depth 0, depth leaks on failure (needs a failed load, then a load with the other flag value)",
        [("rv/errors.py", "    global RAISE_CONTROLLER_VALUE_ERRORS\n    old_raise_errors = RAISE_CONTROLLER_VALUE_ERRORS\n    RAISE_CONTROLLER_VALUE_ERRORS = new_value\n    try:\n        yield\n    finally:\n        RAISE_CONTROLLER_VALUE_ERRORS = old_raise_errors",
          "    global RAISE_CONTROLLER_VALUE_ERRORS, _depth, _saved\n    if _depth == 0:\n        _saved = RAISE_CONTROLLER_VALUE_ERRORS\n    old_raise_errors = RAISE_CONTROLLER_VALUE_ERRORS\n    _depth += 1\n    RAISE_CONTROLLER_VALUE_ERRORS = new_value\n    try:\n        yield\n        _depth -= 1\n    finally:\n        RAISE_CONTROLLER_VALUE_ERRORS = _saved if _depth <= 1 else old_raise_errors"),
         ("rv/errors.py", "class RadiantVoicesError(Exception):\n    pass", "_depth = 0\n_saved = True\n\n\nclass RadiantVoicesError(Exception):\n    pass")],
    ),
]
