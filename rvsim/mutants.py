"""Hand-made mutants for the sensitivity self-test: (name, [(file relative to
src/python, old text, new text), ...]).  Each keeps the 170 pinned tests green (checked
once when the mutant was written) and breaks exactly the property it is listed under."""

MUTANTS = {}

MUTANTS["C18"] = [
    (
        "override: no try/finally",
        [("rv/errors.py", "    try:\n        yield\n    finally:\n        RAISE_CONTROLLER_VALUE_ERRORS = old_raise_errors",
          "    yield\n    RAISE_CONTROLLER_VALUE_ERRORS = old_raise_errors")],
    ),
    (
        "override: restore constant True",
        [("rv/errors.py", "    finally:\n        RAISE_CONTROLLER_VALUE_ERRORS = old_raise_errors",
          "    finally:\n        RAISE_CONTROLLER_VALUE_ERRORS = True")],
    ),
    (
        "override: restore only on Exception",
        [("rv/errors.py", "    try:\n        yield\n    finally:\n        RAISE_CONTROLLER_VALUE_ERRORS = old_raise_errors",
          "    try:\n        yield\n    except Exception:\n        RAISE_CONTROLLER_VALUE_ERRORS = old_raise_errors\n        raise\n    RAISE_CONTROLLER_VALUE_ERRORS = old_raise_errors")],
    ),
    (
        "reader: no finally close",
        [("rv/readers/reader.py", "        try:\n            reader = InitialReader(file_or_name)\n            return reader.object\n        finally:\n            if close:\n                file_or_name.close()",
          "        reader = InitialReader(file_or_name)\n        obj = reader.object\n        if close:\n            file_or_name.close()\n        return obj")],
    ),
    (
        "reader: close only on Exception",
        [("rv/readers/reader.py", "        try:\n            reader = InitialReader(file_or_name)\n            return reader.object\n        finally:\n            if close:\n                file_or_name.close()",
          "        try:\n            reader = InitialReader(file_or_name)\n            obj = reader.object\n        except Exception:\n            if close:\n                file_or_name.close()\n            raise\n        if close:\n            file_or_name.close()\n        return obj")],
    ),
    (
        "reader: sniffs the magic before entering try/finally",
        [("rv/readers/reader.py", "            close = True\n        try:",
          "            close = True\n            file_or_name.read(4)\n            file_or_name.seek(0)\n        try:")],
    ),
    (
        "reader: closes only when an object was produced",
        [("rv/readers/reader.py", "        try:\n            reader = InitialReader(file_or_name)\n            return reader.object\n        finally:\n            if close:\n                file_or_name.close()",
          "        reader = None\n        try:\n            reader = InitialReader(file_or_name)\n            return reader.object\n        finally:\n            if close and reader is not None and reader._object is not None:\n                file_or_name.close()")],
    ),
    (
        "override: saved value recorded only at depth 0, depth leaks on failure (needs a failed load, then a load with the other flag value)",
        [("rv/errors.py", "    global RAISE_CONTROLLER_VALUE_ERRORS\n    old_raise_errors = RAISE_CONTROLLER_VALUE_ERRORS\n    RAISE_CONTROLLER_VALUE_ERRORS = new_value\n    try:\n        yield\n    finally:\n        RAISE_CONTROLLER_VALUE_ERRORS = old_raise_errors",
          "    global RAISE_CONTROLLER_VALUE_ERRORS, _depth, _saved\n    if _depth == 0:\n        _saved = RAISE_CONTROLLER_VALUE_ERRORS\n    old_raise_errors = RAISE_CONTROLLER_VALUE_ERRORS\n    _depth += 1\n    RAISE_CONTROLLER_VALUE_ERRORS = new_value\n    try:\n        yield\n        _depth -= 1\n    finally:\n        RAISE_CONTROLLER_VALUE_ERRORS = _saved if _depth <= 1 else old_raise_errors"),
         ("rv/errors.py", "class RadiantVoicesError(Exception):\n    pass", "_depth = 0\n_saved = True\n\n\nclass RadiantVoicesError(Exception):\n    pass")],
    ),
]

MUTANTS["C19"] = [
    (
        "set_via_fn installs the working copy before the loop",
        [("rv/pattern.py", "        new = self._copy_data()\n        for line in range(self.lines):\n            for track in range(self.tracks):\n                new[line][track] = fn(self, line, track)\n        self._install_data(new)",
          "        new = self._copy_data()\n        self._install_data(new)\n        for line in range(self.lines):\n            for track in range(self.tracks):\n                new[line][track] = fn(self, line, track)\n        self._install_data(new)")],
    ),
    (
        "set_via_gen works on the live grid (alias)",
        [("rv/pattern.py", "        new = self._copy_data()\n        for line, track, note in gen(self, new):",
          "        new = self.data\n        for line, track, note in gen(self, new):")],
    ),
    (
        "shallow copy of the grid (rows copied, notes shared)",
        [("rv/pattern.py", "                copy = note.clone()\n                copy.pattern = self\n                new_line.append(copy)",
          "                new_line.append(note)")],
    ),
    (
        "set_via_fn writes in place, rolls back only on Exception",
        [("rv/pattern.py", "        new = self._copy_data()\n        for line in range(self.lines):\n            for track in range(self.tracks):\n                new[line][track] = fn(self, line, track)\n        self._install_data(new)",
          "        old = [row[:] for row in self.data]\n        new = self.data\n        try:\n            for line in range(self.lines):\n                for track in range(self.tracks):\n                    new[line][track] = fn(self, line, track)\n        except Exception:\n            self._data = old\n            raise\n        self._install_data(new)")],
    ),
    (
        "set_via_gen: the last yielded note is dropped",
        [("rv/pattern.py", "        for line, track, note in gen(self, new):\n            new[line][track] = note\n        self._install_data(new)",
          "        pending = None\n        for line, track, note in gen(self, new):\n            if pending is not None:\n                new[pending[0]][pending[1]] = pending[2]\n            pending = (line, track, note)\n        self._install_data(new)")],
    ),
    (
        "installed notes are not re-owned (revert of the fix, install half)",
        [("rv/pattern.py", "        for line in new:\n            for note in line:\n                note.pattern = self\n        self._data = new",
          "        self._data = new")],
    ),
    (
        "copied notes lose their pattern, install re-owns only notes without a pattern",
        [("rv/pattern.py", "        for line in new:\n            for note in line:\n                note.pattern = self\n        self._data = new",
          "        for line in new:\n            for note in line:\n                if note.pattern is None:\n                    note.pattern = self\n        self._data = new")],
    ),
    (
        "set_via_fn: a failure in the very last cell still installs",
        [("rv/pattern.py", "        new = self._copy_data()\n        for line in range(self.lines):\n            for track in range(self.tracks):\n                new[line][track] = fn(self, line, track)\n        self._install_data(new)",
          "        new = self._copy_data()\n        try:\n            for line in range(self.lines):\n                for track in range(self.tracks):\n                    new[line][track] = fn(self, line, track)\n        finally:\n            if line == self.lines - 1 and track == self.tracks - 1:\n                self._install_data(new)")],
    ),
]


MUTANTS["C19"].append(("revert fix 17f2810 (F6)", [("revert", "17f2810")]))

MUTANTS["C01"] = [
    ("revert fix 8b9bb2d (F1: name cut inside a character)", [("revert", "8b9bb2d")]),
    ("revert fixes 6d5271c+c8b47ec (F3+F4: sampler record)", [("revert", "6d5271c"), ("revert", "c8b47ec")]),
    ("revert fix 6d5271c only (F3: legacy replay of a loaded Sampler)", [("revert", "6d5271c")]),
]

_CONNECT_TAIL = "                in_link_idx = len(in_links)\n                in_links.append(from_mod_idx)\n                out_link_idx = len(out_links)\n                out_links.append(to_mod_idx)\n                in_link_slots.append(out_link_idx)\n                out_link_slots.append(in_link_idx)"

MUTANTS["C07"] = [
    ("revert fix F5 (early return in list loops)", [("revert", "41d7978")]),
    ("connect records the link on the incoming side only",
     [("rv/project.py", _CONNECT_TAIL, "                in_link_idx = len(in_links)\n                in_links.append(from_mod_idx)\n                in_link_slots.append(len(out_links))")]),
    ("disconnect blanks only the incoming end",
     [("rv/project.py", "                    in_links[in_link_idx] = -1\n                    out_links[out_link_idx] = -1\n                    in_link_slots[in_link_idx] = -1\n                    out_link_slots[out_link_idx] = -1",
       "                    in_links[in_link_idx] = -1\n                    in_link_slots[in_link_idx] = -1")]),
    ("out_link_slots records the out index instead of the in index",
     [("rv/project.py", "                out_link_slots.append(in_link_idx)", "                out_link_slots.append(out_link_idx)")]),
    ("already-connected test looks at the wrong index",
     [("rv/project.py", "                if from_mod_idx in in_links:  # Already connected?", "                if to_mod_idx in in_links:  # Already connected?")]),
    ("ownership check removed for the destination operand",
     [("rv/project.py", "                    to_mod_idx = self.module_index(to_module)\n                except ValueError:",
       "                    to_mod_idx = to_module.index\n                except ValueError:")]),
    ("reconnect after disconnect reuses the freed incoming slot but not the outgoing one",
     [("rv/project.py", "                in_link_idx = len(in_links)\n                in_links.append(from_mod_idx)",
       "                if -1 in in_links:\n                    in_link_idx = in_links.index(-1)\n                    in_links[in_link_idx] = from_mod_idx\n                    in_link_slots[in_link_idx] = len(out_links)\n                    out_links.append(to_mod_idx)\n                    out_link_slots.append(in_link_idx + 1)\n                    continue\n                in_link_idx = len(in_links)\n                in_links.append(from_mod_idx)")]),
    ("disconnect of a self pair clears the first matching out slot of any module with that index",
     [("rv/project.py", "                    out_link_idx = out_links.index(to_mod_idx)\n", "                    out_link_idx = out_links.index(to_mod_idx) if from_mod_idx != to_mod_idx else len(out_links) - 1\n")]),
]

MUTANTS["C08"] = [
    ("SLnK written only when some slot > 0 (drops files whose only non-zero slot is... none) -> any() over s > 0 is the same; use all()",
     [("rv/project.py", "if any(s not in (-1, 0) for s in module.in_link_slots):", "if all(s not in (-1, 0) for s in module.in_link_slots):")]),
    ("slot rebuild skips freed entries without keeping the slot list parallel (needs a slot-less file with a hole)",
     [("rv/readers/sunvox.py", "                if other_mod_num == -1:\n                    mod.in_link_slots.append(-1)\n                    continue", "                if other_mod_num == -1:\n                    continue")]),
    ("slot rebuild computes the source slot after appending",
     [("rv/readers/sunvox.py", "                in_slot = len(other_mod.out_link_slots)\n                out_slot = len(mod.in_link_slots)\n                mod.in_link_slots.append(in_slot)\n                other_mod.out_links.append(mod.index)\n                other_mod.out_link_slots.append(out_slot)",
       "                out_slot = len(mod.in_link_slots)\n                other_mod.out_links.append(mod.index)\n                other_mod.out_link_slots.append(out_slot)\n                in_slot = len(other_mod.out_link_slots)\n                mod.in_link_slots.append(in_slot)")]),
    ("SLNK reader stops stripping trailing -1 while SLnK reader still does",
     [("rv/readers/module.py", "        links.extend(unpack(structure, data))\n        while links[-1:] == [-1]:\n            links.pop()", "        links.extend(unpack(structure, data))")]),
    ("writer stores out_link_slots in SLnK",
     [("rv/project.py", "                    link_slots = pack(structure, *link_slots)", "                    link_slots = pack(structure, *(module.out_link_slots + [0] * len(links))[: len(module.in_links)])")]),
    ("freed slot in the middle is compacted away by the writer",
     [("rv/project.py", "                links = module.in_links\n                link_slots = module.in_link_slots\n",
       "                links = [x for x in module.in_links if x != -1]\n                link_slots = [s for x, s in zip(module.in_links, module.in_link_slots) if x != -1]\n")]),
    ("out-link rebuild drops the slot back-reference for slot 0",
     [("rv/readers/sunvox.py", "                if out_link_idx != -1:\n                    out_links[out_link_idx] = mod.index\n                    out_link_slots[out_link_idx] = in_link_idx",
       "                if out_link_idx != -1:\n                    out_links[out_link_idx] = mod.index\n                    out_link_slots[out_link_idx] = in_link_idx or out_link_slots[out_link_idx]")]),
]

MUTANTS["C14"] = [
    ("attach always appends (gaps never reused)",
     [("rv/project.py", "            if not loading and None in self.modules:", "            if False and None in self.modules:")]),
    ("attach fills the highest gap",
     [("rv/project.py", "                module.index = self.module_index(None)\n", "                module.index = len(self.modules) - 1 - self.modules[::-1].index(None)\n")]),
    ("parent assigned before the ownership test (refusal no longer atomic)",
     [("rv/project.py", "        elif module.parent is not None and module.parent is not self:\n            raise ModuleOwnershipError(\"Module is already attached to another project.\")",
       "        elif module.parent is not None and module.parent is not self:\n            module.index = None\n            raise ModuleOwnershipError(\"Module is already attached to another project.\")")]),
    ("attach_pattern appends before raising",
     [("rv/project.py", "        if pattern and pattern.project is not None:\n            raise PatternOwnershipError(\"Pattern already attached to a project\")\n        self.patterns.append(pattern)",
       "        self.patterns.append(pattern)\n        if pattern and pattern.project is not None:\n            raise PatternOwnershipError(\"Pattern already attached to a project\")")]),
    ("loader fills gaps (loading flag ignored)",
     [("rv/project.py", "            if not loading and None in self.modules:", "            if None in self.modules:")]),
    ("note.mod off by one beyond the end",
     [("rv/note.py", "        elif self.module_index < len(self.project.modules):", "        elif self.module_index <= len(self.project.modules) - 1 or self.module_index == len(self.project.modules) + 4:")]),
    ("gap filling shifts the index of the module after the gap",
     [("rv/project.py", "                self.modules[module.index] = module\n", "                self.modules[module.index] = module\n                if module.index + 1 < len(self.modules) and self.modules[module.index + 1] is not None and module.index > 2:\n                    self.modules[module.index + 1].index = module.index + 1 - (module.index % 2)\n")]),
    ("double attach re-appends when the module sits after a gap",
     [("rv/project.py", "        elif module not in self.modules:", "        elif module not in self.modules[: (self.modules.index(None) if None in self.modules else len(self.modules))]:")]),
    ("loader drops empty positions in the middle",
     [("rv/readers/sunvox.py", "        self.object.attach_module(None, loading=True)  # empty module", "        if len(self.object.modules) < 2:\n            self.object.attach_module(None, loading=True)  # empty module")]),
]

MUTANTS["C12"] = [
    ("revert fix F7 (OR-ing note setters)", [("revert", "1362626")]),
    ("effect setter clears the high byte",
     [("rv/note.py", "        self.ctl = (self.ctl & 0xFF00) | (value & 0xFF)", "        self.ctl = value & 0xFF")]),
    ("val_yy setter shifts by 4",
     [("rv/note.py", "        self.val = (self.val & 0xFF00) | (value & 0xFF)", "        self.val = (self.val & 0xFF00) | ((value << 4) & 0xFF)")]),
    ("oscilloscope_size getter masks 7 bits",
     [("rv/modules/module.py", "        return self.value >> 16 & 0xFF", "        return self.value >> 16 & 0x7F")]),
    ("SMII packs channel << 2",
     [("rv/modules/module.py", "int(self.midi_in_always) + (self.midi_in_channel << 1)", "int(self.midi_in_always) + (self.midi_in_channel << 2)")]),
    ("SFGS other flags shifted by 2",
     [("rv/project.py", "self.receive_sync_midi | (self.receive_sync_other << 3)", "self.receive_sync_midi | (self.receive_sync_other << 2)")]),
    ("raw_data truncates the module number to 8 bits when a velocity is present",
     [("rv/note.py", "        return pack(\"<BBHHH\", self.note, self.vel, self.module, self.ctl, self.val)", "        return pack(\"<BBHHH\", self.note, self.vel, self.module & 0xFF if self.vel > 128 else self.module, self.ctl, self.val)")]),
    ("bg_transparency setter forgets to clamp above",
     [("rv/modules/module.py", "self.value - (self.bg_transparency << 24) + (max(0, min(v, 3)) << 24)", "self.value - (self.bg_transparency << 24) + (max(0, v) << 24)")]),
    ("orientation setter clears oscilloscope bit 8 when set to vertical",
     [("rv/modules/module.py", "        self.value = self.value - (int(self.orientation) << 5) + ((int(v) & 1) << 5)", "        self.value = (self.value - (int(self.orientation) << 5) + ((int(v) & 1) << 5)) & ~((int(v) & 1) << 8)")]),
    ("pattern raw_data setter reads column-major for non-square patterns",
     [("rv/pattern.py", "                offset = (line_no * self.tracks * 8) + (track_no * 8)", "                offset = (line_no * self.tracks * 8) + (track_no * 8) if self.lines != 3 else (track_no * self.lines * 8) + (line_no * 8)")]),
    ("loader masks note.module to 8 bits for current files too",
     [("rv/readers/sunvox.py", "        if self.object.loaded_sunvox_version < (1, 9, 5, 0):", "        if self.object.loaded_sunvox_version < (2, 9, 5, 0):")]),
]

MUTANTS["C05"] = [
    ("revert fix F2 (out-of-range CVAL drift)", [("revert", "bddc651")]),
    ("Synth.chunks truncates the module name in place while saving",
     [("rv/synth.py", "        mod = self.module\n        yield from mod.iff_chunks(in_project=False)", "        mod = self.module\n        if len(mod.name) > 28:\n            mod.name = mod.name[:28]\n        yield from mod.iff_chunks(in_project=False)")]),
    ("SLnK reader stops stripping trailing -1",
     [("rv/readers/module.py", "        slots.extend(unpack(structure, data))\n        while slots[-1:] == [-1]:\n            slots.pop()", "        slots.extend(unpack(structure, data))")]),
    ("writer normalises module scale 0 to 256 on save",
     [("rv/modules/module.py", "        yield b\"SSCL\", pack(\"<I\", self.scale)", "        if self.scale == 0:\n            self.scale = 256\n        yield b\"SSCL\", pack(\"<I\", self.scale)")]),
    ("write_chunk caches the header of the previous chunk by name (stale size when two writers interleave)",
     [("rv/lib/iff.py", "    size = len(data)\n    f.write(name)\n    f.write(struct.pack(\"<I\", size))\n    f.write(data)",
       "    size = len(data)\n    if _last[0] == name and _last[2] is not f:\n        hdr = _last[1]\n    else:\n        hdr = name + struct.pack(\"<I\", size)\n    _last[:] = [name, hdr, f]\n    f.write(hdr)\n    f.write(data)"),
      ("rv/lib/iff.py", "def write_chunk(f, name, data):", "_last = [None, None, None]\n\n\ndef write_chunk(f, name, data):")]),
    ("an aborted save leaves the Sampler marked as legacy",
     [("rv/modules/sampler.py", "        for iter in iters:\n            yield from iter", "        self.is_legacy, self.legacy_chunks = True, []\n        for iter in iters:\n            yield from iter\n        self.is_legacy, self.legacy_chunks = False, None")]),
    ("pattern writer clamps velocity above 128 while saving",
     [("rv/pattern.py", "        yield b\"PDTA\", self.raw_data", "        for line in self.data:\n            for note in line:\n                if note.vel > 129:\n                    note.vel = 129\n        yield b\"PDTA\", self.raw_data")]),
]

MUTANTS["C01"].append(("MetaModule caches the embedded project bytes after the first save",
     [("rv/modules/metamodule.py", "        yield b\"CHDT\", self.project.read()", "        if getattr(self, \"_cached\", None) is None:\n            self._cached = self.project.read()\n        yield b\"CHDT\", self._cached")]))

MUTANTS["C17"] = [
    ("ArrayChunk.reset shares the class-level default list",
     [("rv/chunks/array.py", "            self.values = self.default.copy()", "            self.values = self.default")]),
    ("WaveformChunk shares the class-level default samples",
     [("rv/chunks/waveform.py", "        self.samples = self.default[:] if self.default is not None else []", "        self.samples = self.default if self.default is not None else []")]),
    ("Sampler.Envelope shares initial_points",
     [("rv/modules/sampler.py", "            self.points = self.initial_points[:]", "            self.points = self.initial_points")]),
    ("controller_midi_maps default shared by all modules",
     [("rv/modules/module.py", "        self.controller_midi_maps = defaultdict(ControllerMidiMap)", "        self.controller_midi_maps = _SHARED_MAPS"),
      ("rv/modules/module.py", "class Chunk:\n    \"\"\"A chunk of custom data related to a module.\"\"\"", "_SHARED_MAPS = defaultdict(ControllerMidiMap)\n\n\nclass Chunk:\n    \"\"\"A chunk of custom data related to a module.\"\"\"")]),
    ("Sampler note map built once at class level",
     [("rv/modules/sampler.py", "        self.note_samples = self.NoteSampleMap()", "        if not hasattr(Sampler, \"_shared_map\"):\n            Sampler._shared_map = self.NoteSampleMap()\n        self.note_samples = Sampler._shared_map")]),
    ("Project patterns list is a shared mutable default argument",
     [("rv/project.py", "    def __init__(self):\n        self.modules = []", "    def __init__(self, _patterns=[]):\n        self.modules = []"),
      ("rv/project.py", "        self.patterns = []\n", "        self.patterns = _patterns\n")]),
    ("MetaModules constructed without a project share one default embedded project",
     [("rv/modules/metamodule.py", "        self.project = project or Project()\n        self.project.metamodule = self", "        global _DEFAULT_PROJECT\n        if project is None:\n            if _DEFAULT_PROJECT is None:\n                _DEFAULT_PROJECT = Project()\n            project = _DEFAULT_PROJECT\n        self.project = project\n        self.project.metamodule = self"),
      ("rv/modules/metamodule.py", "MAX_USER_DEFINED_CONTROLLERS = 96\n", "MAX_USER_DEFINED_CONTROLLERS = 96\n_DEFAULT_PROJECT = None\n")]),
    ("MultiCtl mapping defaults are one shared Mapping object per process",
     [("rv/modules/multictl.py", "        def default(self, _):\n            return MultiCtl.Mapping((0, 0x8000, 0, 0, 0, 0, 0, 0))", "        def default(self, _):\n            if not hasattr(MultiCtl, \"_dm\"):\n                MultiCtl._dm = MultiCtl.Mapping((0, 0x8000, 0, 0, 0, 0, 0, 0))\n            return MultiCtl._dm")]),
    ("Sampler effect_control_envelopes list shared across samplers after the first",
     [("rv/modules/sampler.py", "        self.effect_control_envelopes = [\n            self.EffectControlEnvelope(0x105),\n            self.EffectControlEnvelope(0x106),\n            self.EffectControlEnvelope(0x107),\n            self.EffectControlEnvelope(0x108),\n        ]",
       "        if not hasattr(Sampler, \"_ece\"):\n            Sampler._ece = [\n                self.EffectControlEnvelope(0x105),\n                self.EffectControlEnvelope(0x106),\n                self.EffectControlEnvelope(0x107),\n                self.EffectControlEnvelope(0x108),\n            ]\n        self.effect_control_envelopes = Sampler._ece")]),
    ("Container.clone memoises by saved bytes (two clones of an unchanged object are one object)",
     [("rv/container.py", "    def clone(self):\n        with BytesIO() as f:\n            self.write_to(f)\n            f.seek(0)\n            return read_sunvox_file(f)",
       "    def clone(self):\n        with BytesIO() as f:\n            self.write_to(f)\n            key = f.getvalue()\n            if key not in _CLONES:\n                f.seek(0)\n                _CLONES[key] = read_sunvox_file(f)\n            return _CLONES[key]"),
      ("rv/container.py", "class Container:", "_CLONES = {}\n\n\nclass Container:")]),
]

MUTANTS["C06"] = [
    ("revert fix F3 (legacy replay of a loaded Sampler)", [("revert", "6d5271c")]),
    ("loaded pattern data is cached and the cache is written",
     [("rv/readers/pattern.py", "        self.object.raw_data = self._raw_data\n        raise ReaderFinished()", "        self.object.raw_data = self._raw_data\n        self.object._loaded_raw = self._raw_data\n        raise ReaderFinished()"),
      ("rv/pattern.py", "        yield b\"PDTA\", self.raw_data", "        yield b\"PDTA\", getattr(self, \"_loaded_raw\", None) or self.raw_data")]),
    ("MetaModule writes the embedded project bytes captured at load",
     [("rv/modules/metamodule.py", "        self.project = read_sunvox_file(BytesIO(chunk.chdt))", "        self.project = read_sunvox_file(BytesIO(chunk.chdt))\n        self._loaded_project_bytes = chunk.chdt"),
      ("rv/modules/metamodule.py", "        yield b\"CHDT\", self.project.read()", "        yield b\"CHDT\", getattr(self, \"_loaded_project_bytes\", None) or self.project.read()")]),
    ("options chunk of a loaded module is replayed from the loaded bytes",
     [("rv/modules/module.py", "        bytemap = list(chunk.chdt)\n        while len(bytemap) < 64:", "        self._loaded_options = chunk.chdt\n        bytemap = list(chunk.chdt)\n        while len(bytemap) < 64:"),
      ("rv/modules/module.py", "        yield b\"CHDT\", pack(\"B\" * bytes, *bytemap[:bytes])", "        yield b\"CHDT\", getattr(self, \"_loaded_options\", None) or pack(\"B\" * bytes, *bytemap[:bytes])")]),
    ("VorbisPlayer writer prefers the data captured at load",
     [("rv/modules/vorbisplayer.py", "            self.data = chunk.chdt", "            self.data = self._loaded = chunk.chdt"),
      ("rv/modules/vorbisplayer.py", "        yield b\"CHDT\", self.data or b\"\"", "        yield b\"CHDT\", getattr(self, \"_loaded\", None) or self.data or b\"\"")]),
    ("controllers loaded from CVALs are written from the loaded raw values",
     [("rv/modules/module.py", "        self.controller_values[name] = value\n\n    def propagate_down", "        self.controller_values[name] = value\n        if name in (\"volume\", \"feedback\"):\n            self.__dict__.setdefault(\"_loaded_raw\", {})[name] = raw_value\n\n    def propagate_down"),
      ("rv/modules/module.py", "        controller = self.controllers[name]\n        t = controller.instance_value_type(self)\n        value = getattr(self, name)", "        if name in self.__dict__.get(\"_loaded_raw\", {}):\n            return self._loaded_raw[name]\n        controller = self.controllers[name]\n        t = controller.instance_value_type(self)\n        value = getattr(self, name)")]),
    ("midi_out_name of a loaded module is sticky (writer keeps the loaded name when the new one is shorter)",
     [("rv/readers/module.py", "        self.object.midi_out_name = data.decode(ENCODING)", "        self.object.midi_out_name = data.decode(ENCODING)\n        self.object._loaded_midi_out_name = self.object.midi_out_name"),
      ("rv/modules/module.py", "        if self.midi_out_name:\n            yield b\"SMIN\", self.midi_out_name.encode(ENCODING) + b\"\\0\"", "        _n = self.midi_out_name\n        _l = getattr(self, \"_loaded_midi_out_name\", None)\n        if _l and _n and len(_n) < len(_l):\n            _n = _l\n        if _n:\n            yield b\"SMIN\", _n.encode(ENCODING) + b\"\\0\"")]),
    ("Sampler envelope edits are dropped when the envelope was loaded and has more than 4 points",
     [("rv/modules/sampler.py", "            for x, y in self.points:\n                data += pack(\"<HH\", x, y - self.range[0])\n            yield b\"CHDT\", data", "            for x, y in (self._loaded_points if self.loaded and len(getattr(self, \"_loaded_points\", ())) > 4 else self.points):\n                data += pack(\"<HH\", x, y - self.range[0])\n            yield b\"CHDT\", data"),
      ("rv/modules/sampler.py", "            self.loaded = True\n", "            self.loaded = True\n            self._loaded_points = list(points)\n")]),
]


# ---------------------------------------------------------------------------
# `./check sensitivity --tests` showed that these hand-made mutants are already killed by
# the repository's own suite; they are dropped from the table (a sensitivity mutant has
# to be something the 170 tests cannot see) and replaced by subtler variants below.
_SUITE_KILLED = {
    "C07": ["connect records the link on the incoming side only", "disconnect blanks only the incoming end"],
    "C08": ["slot rebuild skips freed entries", "slot rebuild computes the source slot after appending", "SLNK reader stops stripping trailing -1 while", "writer stores out_link_slots in SLnK", "out-link rebuild drops the slot back-reference"],
    "C12": ["SFGS other flags shifted by 2"],
    "C14": ["loader fills gaps (loading flag ignored)", "loader drops empty positions in the middle"],
    "C17": ["Project patterns list is a shared mutable default argument", "MultiCtl mapping defaults are one shared Mapping object"],
}
for _p, _names in _SUITE_KILLED.items():
    MUTANTS[_p] = [m for m in MUTANTS[_p] if not any(m[0].startswith(n) for n in _names)]

MUTANTS["C07"] += [
    ("disconnect blanks only the incoming end when the source fans out",
     [("rv/project.py", "                    in_links[in_link_idx] = -1\n                    out_links[out_link_idx] = -1\n                    in_link_slots[in_link_idx] = -1\n                    out_link_slots[out_link_idx] = -1",
       "                    in_links[in_link_idx] = -1\n                    in_link_slots[in_link_idx] = -1\n                    if sum(1 for x in out_links if x >= 0) < 2:\n                        out_links[out_link_idx] = -1\n                        out_link_slots[out_link_idx] = -1")]),
    ("connect of a self pair records the outgoing side twice",
     [("rv/project.py", "                in_link_slots.append(out_link_idx)\n                out_link_slots.append(in_link_idx)", "                in_link_slots.append(out_link_idx)\n                out_link_slots.append(in_link_idx)\n                if from_module is to_module and len(out_links) > 1:\n                    out_links.append(to_mod_idx)\n                    out_link_slots.append(in_link_idx)")]),
]
MUTANTS["C08"] += [
    ("SLnK elided when every slot is -1, 0 or 1",
     [("rv/project.py", "if any(s not in (-1, 0) for s in module.in_link_slots):", "if any(s not in (-1, 0, 1) for s in module.in_link_slots):")]),
    ("writer stores freed slots as 0 in SLnK",
     [("rv/project.py", "                    link_slots = pack(structure, *link_slots)", "                    link_slots = pack(structure, *[max(s, 0) for s in link_slots])")]),
    ("slot rebuild for slot-less modules numbers source slots from the source's in-degree",
     [("rv/readers/sunvox.py", "                in_slot = len(other_mod.out_link_slots)\n", "                in_slot = len(other_mod.out_link_slots) if other_mod.index else len(other_mod.in_links)\n")]),
    ("SLnK reader drops a trailing 0 as well as trailing -1",
     [("rv/readers/module.py", "        slots.extend(unpack(structure, data))\n        while slots[-1:] == [-1]:\n            slots.pop()", "        slots.extend(unpack(structure, data))\n        while slots[-1:] == [-1] or (len(slots) > 3 and slots[-1:] == [0]):\n            slots.pop()")]),
]
MUTANTS["C14"] += [
    ("loader collapses two consecutive empty positions into one",
     [("rv/readers/sunvox.py", "        self.object.attach_module(None, loading=True)  # empty module", "        if len(self.object.modules) < 2 or self.object.modules[-1] is not None or self.object.modules[-2] is not None:\n            self.object.attach_module(None, loading=True)  # empty module")]),
    ("attach prefers the gap right after the output over a lower... (skips position 1 when two gaps exist)",
     [("rv/project.py", "                module.index = self.module_index(None)\n", "                module.index = self.module_index(None)\n                if module.index == 1 and self.modules.count(None) > 1:\n                    module.index = self.modules.index(None, 2)\n")]),
]

MUTANTS["C12"] += [
    ("effect setter ORs only when the old effect byte is exactly 0x80 (value-specific: needs the triple enumeration)",
     [("rv/note.py", "        self.ctl = (self.ctl & 0xFF00) | (value & 0xFF)", "        self.ctl = ((self.ctl & 0xFF00) | (value & 0xFF)) if (self.ctl & 0xFF) != 0x80 else (self.ctl | (value & 0xFF))")]),
    ("val_xx setter drops bit 7 of the new value when the old YY byte is 0xA5",
     [("rv/note.py", "        self.val = (self.val & 0x00FF) | ((value & 0xFF) << 8)", "        self.val = (self.val & 0x00FF) | ((value & (0x7F if (self.val & 0xFF) == 0xA5 else 0xFF)) << 8)")]),
]

MUTANTS["C17"] += [
    ("module under construction is parked in a module-level dict and reused by the next load of that type if the previous load failed",
     [("rv/readers/module.py", "        cls = MODULE_CLASSES[mtype]\n        new_module: Module = cls()", "        cls = MODULE_CLASSES[mtype]\n        new_module: Module = _PENDING.pop(mtype, None) or cls()\n        _PENDING[mtype] = new_module"),
      ("rv/readers/module.py", "    def process_SEND(self, data):\n        self._load_last_chunk()", "    def process_SEND(self, data):\n        _PENDING.pop(getattr(self.object, \"mtype\", None), None)\n        self._load_last_chunk()"),
      ("rv/readers/module.py", "class ModuleReader(Reader):", "_PENDING = {}\n\n\nclass ModuleReader(Reader):")]),
]
