"""In-place "scribbling" over one object graph - the aliasing detector.

`scribble(obj, seed)` walks everything reachable from `obj` through instance attributes, lists,
dicts and tuples of library objects, and changes every primitive leaf it finds IN PLACE (list
elements, dict values, attributes of sample / envelope / mapping / MIDI-map / note objects,
bytearrays ...).  It never replaces a container or a library object by a new one, so whatever is
shared between this graph and another one (an interned parse result, a reused buffer, a record
handed over by reference, a class-level default that instances alias) changes under the other
owner's feet too.  The scribbled graph itself is garbage afterwards and must be dropped.

Objects that are immutable by design are left alone: enum members, classes, functions, the
descriptor / value-type classes of rv.controller and rv.option, and anything that is reachable as
an attribute of the object's *class* (class-level constants).
"""
import enum
import types

IMMUTABLE_MODULES = ("rv.controller", "rv.option")


def _is_rv(o):
    m = getattr(type(o), "__module__", "") or ""
    return m == "rv" or m.startswith("rv.")


def _new_leaf(v, salt):
    if isinstance(v, bool):
        return not v
    if isinstance(v, enum.Enum):
        return v
    if isinstance(v, int):
        return v ^ (1 + salt % 3)
    if isinstance(v, float):
        return v + 1.0
    if isinstance(v, str):
        return v + "~"
    if isinstance(v, bytes):
        return bytes(b ^ 0x55 for b in v[:4096]) + v[4096:] if v else b"\x01"
    return v


def scribble(obj, seed=0, limit=200000):
    seen = set()
    count = [0]
    stack = [obj]
    while stack and count[0] < limit:
        o = stack.pop()
        if o is None or isinstance(o, (bool, int, float, str, bytes, enum.Enum, type, types.FunctionType, types.MethodType, types.ModuleType)):
            continue
        if id(o) in seen:
            continue
        seen.add(id(o))
        if isinstance(o, bytearray):
            if o:
                o[0] ^= 0x55
                count[0] += 1
            continue
        if isinstance(o, list):
            for i, v in enumerate(o):
                nv = _new_leaf(v, seed + i)
                if nv is not v and not isinstance(v, (list, dict, tuple)) and not _is_rv(v):
                    o[i] = nv
                    count[0] += 1
                else:
                    stack.append(v)
            continue
        if isinstance(o, dict):
            for kk in list(o):
                v = o[kk]
                nv = _new_leaf(v, seed)
                if nv is not v and not isinstance(v, (list, dict, tuple)) and not _is_rv(v):
                    o[kk] = nv
                    count[0] += 1
                else:
                    stack.append(v)
            continue
        if isinstance(o, (tuple, set, frozenset)):
            for v in o:
                stack.append(v)
            continue
        if type(o).__module__ == "numpy" or type(o).__name__ in ("ndarray", "array"):
            try:
                if len(o):
                    o[0] = o[0] + 1
                    count[0] += 1
            except Exception:
                pass
            continue
        if not _is_rv(o) or type(o).__module__ in IMMUTABLE_MODULES:
            continue
        names = []
        if hasattr(o, "__dict__"):
            names += list(vars(o))
        for klass in type(o).__mro__:
            for n in getattr(klass, "__slots__", ()) or ():
                if isinstance(n, str) and n not in names and n not in ("__dict__", "__weakref__"):
                    names.append(n)
        for n in names:
            try:
                v = getattr(o, n) if n not in getattr(o, "__dict__", {}) else o.__dict__[n]
            except Exception:
                continue
            if getattr(type(o), n, None) is v and v is not None and not isinstance(v, (bool, int, float, str, bytes)):
                continue  # a class-level constant that the instance merely sees
            nv = _new_leaf(v, seed + len(n))
            if nv is not v and not isinstance(v, (list, dict, tuple)) and not _is_rv(v):
                try:
                    if n in getattr(o, "__dict__", {}):
                        o.__dict__[n] = nv
                    else:
                        object.__setattr__(o, n, nv)
                    count[0] += 1
                except Exception:
                    pass
            else:
                stack.append(v)
    return count[0]
