"""File population of the SimDisk: shipped fixtures, library-generated files, and
perturbed variants.  A file is named by a JSON-able *spec* so that a replay file can
re-materialise exactly the same bytes without the PRNG."""
import functools
import json
import os
import struct

from . import chunkio, env


@functools.lru_cache(maxsize=None)
def fixture_names():
    out = []
    root = env.FIXTURES
    for d, _, fs in sorted(os.walk(root)):
        for f in sorted(fs):
            if f.endswith((".sunvox", ".sunsynth")):
                out.append(os.path.relpath(os.path.join(d, f), root))
    return tuple(sorted(out))


@functools.lru_cache(maxsize=None)
def fixture_bytes(name):
    with open(os.path.join(env.FIXTURES, name), "rb") as f:
        return f.read()


def _apply_perturb(data, p):
    kind = p[0]
    if kind == "cval":  # ["cval", n, value]: n-th CVAL chunk of the (outer) stream <- int32 value
        _, n, value = p
        chunks = [(nm, pl) for _, nm, pl in chunkio.split(data)]
        idxs = [i for i, (nm, _) in enumerate(chunks) if nm == b"CVAL"]
        if not idxs:
            return data
        i = idxs[n % len(idxs)]
        chunks[i] = (b"CVAL", struct.pack("<i", value))
        return chunkio.join(chunks)
    if kind == "vers":  # ["vers", n]: the file claims to be written by an older / newer SunVox
        versions = ((1, 7, 0, 0), (1, 9, 4, 2), (1, 9, 5, 0), (1, 9, 6, 1), (2, 0, 0, 0), (2, 1, 2, 1))
        v = versions[p[1] % len(versions)]
        chunks = [(nm, pl) for _, nm, pl in chunkio.split(data)]
        for i, (nm, pl) in enumerate(chunks):
            if nm == b"VERS" and len(pl) == 4:
                chunks[i] = (nm, bytes(reversed(v)))
                break
        return chunkio.join(chunks)
    if kind == "payload":  # ["payload", chunk_id, n, offset, byte]: rewrite one payload byte
        _, cid, n, off, byte = p
        cid = cid.encode()
        chunks = [(nm, pl) for _, nm, pl in chunkio.split(data)]
        idxs = [i for i, (nm, pl) in enumerate(chunks) if nm == cid and len(pl) > 0]
        if not idxs:
            return data
        i = idxs[n % len(idxs)]
        pl = bytearray(chunks[i][1])
        if cid == b"SLnK":
            # slot numbers size a list in the loader (it pads the source's table up to the
            # slot): keep them small - any of -1, 0..8 - rather than up to 2**31
            k = (off % len(pl)) // 4 * 4
            if k + 4 <= len(pl):
                pl[k : k + 4] = struct.pack("<i", -1 if byte == 0xFF else byte % 9)
            chunks[i] = (cid, bytes(pl))
            return chunkio.join(chunks)
        if chunkio.is_container(bytes(pl)) and (off % len(pl)) in chunkio.alloc_field_offsets(bytes(pl)):
            return data  # would resize an embedded pattern to up to 2**32 rows
        pl[off % len(pl)] = byte & 0xFF
        chunks[i] = (cid, bytes(pl))
        return chunkio.join(chunks)
    if kind == "sampler_legacy":  # ["sampler_legacy", n, variant]: make the n-th Sampler instrument record an old-format one
        _, n, variant = p
        chunks = [(nm, pl) for _, nm, pl in chunkio.split(data)]
        SIGN = 0xFC  # offset of the "SAMP" signature in the instrument record
        idxs = [i for i, (nm, pl) in enumerate(chunks) if nm == b"CHDT" and len(pl) >= SIGN + 8 and pl[SIGN : SIGN + 4] == b"PMAS"]
        if not idxs:
            return data
        i = idxs[n % len(idxs)]
        pl = bytearray(chunks[i][1])
        v = variant % 6
        if v in (4, 5):
            # an instrument written by an older format revision: version 0/1 and header-level tuning
            pl[0x100:0x104] = struct.pack("<I", v - 4)
            pl[0xF5] = 5  # finetune (int8)
            pl[0xF7] = 2  # relative_note (int8)
        elif v == 0:
            pl[SIGN : SIGN + 4] = b"\0\0\0\0"  # written before the signature existed
        elif v == 1:
            pl = pl[:0x184]  # record ends after the 128-entry note map (no max_version / editor fields)
        elif v == 2:
            pl = pl[:0x188]
        else:
            pl[SIGN : SIGN + 4] = b"SAMP"  # wrong byte order
        chunks[i] = (b"CHDT", bytes(pl))
        return chunkio.join(chunks)
    if kind == "in":  # ["in", n, inner]: apply `inner` inside the n-th embedded container (project / effect synth)
        _, n, inner = p
        chunks = [(nm, pl) for _, nm, pl in chunkio.split(data)]
        idxs = [i for i, (nm, pl) in enumerate(chunks) if nm == b"CHDT" and chunkio.is_container(pl)]
        if not idxs:
            return _apply_perturb(data, inner)
        i = idxs[n % len(idxs)]
        chunks[i] = (b"CHDT", _apply_perturb(chunks[i][1], inner))
        return chunkio.join(chunks)
    if kind == "strip":  # ["strip", chunk_id]: remove every chunk with that id (outer stream)
        cid = p[1].encode()
        return chunkio.join([(nm, pl) for _, nm, pl in chunkio.split(data) if nm != cid])
    raise ValueError("unknown perturbation %r" % (p,))


_cache = {}


def materialize(spec):
    key = json.dumps(spec, sort_keys=True)
    if key in _cache:
        return _cache[key]
    src = spec["src"]
    if src == "fixture":
        data = fixture_bytes(spec["name"])
    elif src == "gen":
        from . import builder

        data = builder.generated_file(spec)
    elif src == "bytes":
        data = bytes.fromhex(spec["hex"])
    else:
        raise ValueError(src)
    for p in spec.get("perturb", ()):
        data = _apply_perturb(data, p)
    if len(_cache) > 4000:
        _cache.clear()
    _cache[key] = data
    return data


def spec_label(spec):
    if spec["src"] == "fixture":
        s = spec["name"]
    elif spec["src"] == "gen":
        s = "gen:%s" % spec.get("seed")
    else:
        s = "bytes"
    if spec.get("perturb"):
        s += "+p"
    return s
