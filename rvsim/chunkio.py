"""Independent (of rv) splitter/joiner for flat IFF-style chunk streams:
4-byte id, uint32 LE length, payload.  Used to find chunk boundaries for truncation
faults and to rewrite value-bearing payloads ("files last written by another program")."""
import struct


def split(data):
    """-> list of (offset, name, payload). Stops at the first incomplete chunk."""
    out = []
    pos = 0
    n = len(data)
    while pos + 8 <= n:
        name = data[pos : pos + 4]
        (size,) = struct.unpack_from("<I", data, pos + 4)
        if pos + 8 + size > n:
            break
        out.append((pos, name, data[pos + 8 : pos + 8 + size]))
        pos += 8 + size
    return out


def join(chunks):
    return b"".join(name + struct.pack("<I", len(p)) + p for name, p in chunks)


def boundaries(data):
    """Every chunk start offset, plus end of data."""
    offs = [o for o, _, _ in split(data)]
    offs.append(len(data))
    return offs


def is_container(payload):
    return payload[:4] in (b"SVOX", b"SSYN")


def nested_payloads(data):
    """(offset_of_payload, payload) for every CHDT that itself is a chunk stream."""
    return [(o + 8, p) for o, n, p in split(data) if n == b"CHDT" and is_container(p)]


ALLOC_FIELDS = (b"PCHN", b"PLIN")


def alloc_field_offsets(data, base=0):
    """Absolute offsets of payload bytes that size an allocation in the loader (pattern
    tracks / lines, also inside embedded projects).  A flipped high byte there asks the
    library for up to 2**32 rows of Note objects: that is a resource question the
    property does not speak about, and it would take the harness down with it."""
    out = set()
    for o, n, p in split(data):
        if n in ALLOC_FIELDS:
            out.update(range(base + o + 8, base + o + 8 + len(p)))
        elif n == b"CHDT" and is_container(p):
            out |= alloc_field_offsets(p, base + o + 8)
    return out
