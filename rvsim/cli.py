"""./check <Cxx> <quick|thorough> | --replay <file> | selftest [Cxx...] | sensitivity [Cxx...]"""
import os
import sys


def main(argv):
    if not argv:
        print(__doc__)
        return 2
    from . import runner

    if argv[0] == "--replay":
        return runner.replay(argv[1])
    if argv[0] == "selftest":
        from . import selftest

        return selftest.main(argv[1:])
    if argv[0] == "sensitivity":
        from . import sensitivity

        return sensitivity.main(argv[1:])
    pid = argv[0].upper()
    tier = argv[1] if len(argv) > 1 else os.environ.get("VERIF_TIER", "quick")
    seed = int(os.environ.get("VERIF_SEED", "0"))
    return runner.run_check(pid, tier, seed)


if __name__ == "__main__":
    try:
        rc = main(sys.argv[1:])
    except SystemExit:
        raise
    except BaseException:
        import traceback

        traceback.print_exc()
        print("harness error (no verdict)")
        rc = 2
    sys.stdout.flush()
    sys.exit(rc)
