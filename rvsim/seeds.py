"""One integer decides everything: seed derivation."""
import hashlib
import random

MASK = (1 << 64) - 1


def splitmix64(x):
    x = (x + 0x9E3779B97F4A7C15) & MASK
    z = x
    z = ((z ^ (z >> 30)) * 0xBF58476D1CE4E5B9) & MASK
    z = ((z ^ (z >> 27)) * 0x94D049BB133111EB) & MASK
    return z ^ (z >> 31)


def derive(seed, *parts):
    """Stable (hash-seed independent) derivation of a sub-seed."""
    h = hashlib.blake2b(digest_size=8)
    h.update(str(int(seed)).encode())
    for p in parts:
        h.update(b"\0" + str(p).encode())
    return splitmix64(int.from_bytes(h.digest(), "little"))


def rng(seed, *parts):
    return random.Random(derive(seed, *parts))


def digest(*objs):
    h = hashlib.blake2b(digest_size=8)
    for o in objs:
        if isinstance(o, (bytes, bytearray)):
            h.update(b"b" + bytes(o))
        else:
            h.update(b"s" + repr(o).encode())
        h.update(b"\0")
    return h.hexdigest()


def h64(*objs):
    return int(digest(*objs), 16)
