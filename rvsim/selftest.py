"""Determinism self-test.  For every claimed property: N seeded cases are generated
and executed (a) twice in this interpreter, each in a pristine forked child, (b) once
more in a fresh interpreter under another PYTHONHASHSEED; all digests (hash chain of
the per-step event log: ops, outcomes, snapshot digests, bytes produced) must agree.
Then a slice of the quick plan is run at two worker counts and the batch digests are
compared.  A divergence is a harness bug: exit 1 here, never a property verdict."""
import json
import os
import subprocess
import sys

from . import runner

ROOT = runner.ROOT


def digests(pid, n, seed=0):
    mod = runner.prop_module(pid)
    out = []
    for i in range(n):
        case = mod.generate(seed, i)
        res = runner.isolated_call(mod.execute, case)
        out.append(res["digest"])
    return out


def batch_digest(pid, workers, nunits):
    mod = runner.prop_module(pid)
    units = mod.plan("quick", 0)
    step = max(1, len(units) // nunits)
    units = units[::step][:nunits]
    import concurrent.futures as cf
    import multiprocessing as mp

    with cf.ProcessPoolExecutor(max_workers=workers, mp_context=mp.get_context("fork")) as ex:
        res = list(ex.map(runner._worker_run, [(pid, u) for u in units]))
    for r in res:
        if "harness_error" in r:
            raise RuntimeError(r["harness_error"])
    return [r["digest"] for r in res]


def main(argv):
    if argv and argv[0] == "--emit":
        print(json.dumps(digests(argv[1], int(argv[2]))))
        return 0
    n = int(os.environ.get("VERIF_SELFTEST_N", "500"))
    want = [a.upper() for a in argv] or [p for p in runner.CLAIMED if _exists(p)]
    bad = 0
    for pid in want:
        a = digests(pid, n)
        b = digests(pid, n)
        env = dict(os.environ, PYTHONHASHSEED="12345")
        p = subprocess.run([sys.executable, "-m", "rvsim.selftest", "--emit", pid, str(n)], cwd=ROOT, env=env, capture_output=True, text=True, timeout=3600)
        if p.returncode != 0:
            print(pid, "fresh interpreter failed:", p.stderr[-500:])
            bad += 1
            continue
        c = json.loads(p.stdout.strip().splitlines()[-1])
        d1 = batch_digest(pid, 1, 6)
        d2 = batch_digest(pid, 8, 6)
        same = a == b == c
        diverged = [i for i in range(n) if not (a[i] == b[i] == c[i])]
        print("%s: %d seeds x (2 runs + fresh interpreter under PYTHONHASHSEED=12345): %s; batch digests at 1 vs 8 workers: %s; distinct digests %d"
              % (pid, n, "identical" if same else "DIVERGED at %r" % diverged[:10], "identical" if d1 == d2 else "DIVERGED", len(set(a))))
        if not same or d1 != d2:
            bad += 1
    print("selftest:", "ok" if not bad else "%d properties diverged" % bad)
    return 0 if not bad else 1


def _exists(pid):
    return os.path.exists(os.path.join(ROOT, "rvsim", "props", pid.lower() + ".py"))


if __name__ == "__main__":
    sys.exit(main(sys.argv[1:]))
