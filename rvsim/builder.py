"""Operation alphabet of the `store` / `links` / `owner` worlds and its interpreter.

Ops are plain JSON: object selectors are small ints resolved *modulo the live set at
execution time*, values are raw ints mapped into the current domain of the selected
slot at execution time.  Hence every subsequence of an op list is executable, which is
what lets the minimiser drop steps, and generation needs no knowledge of the state.

Domains follow DESIGN Appendix A (documented width / the controller's own value_type /
the option's size), with the listed restrictions.
"""
import struct
from enum import Enum

from . import env, seeds  # noqa: F401

import rv.errors
import rv.modules as M
from rv.controller import DependentRange, Range
from rv.modules.metamodule import MetaModule
from rv.modules.sampler import Sampler
from rv.note import NOTECMD
from rv.pattern import Pattern, PatternClone
from rv.project import Project
from rv.synth import Synth

TYPES = sorted((c for c in M.MODULE_CLASSES.values() if c.__name__ != "Output"), key=lambda c: c.__name__)
TYPE_NAMES = [c.__name__ for c in TYPES]
SIMPLE_TYPES = [c for c in TYPES if c.__name__ not in ("MetaModule", "Sampler")]
NOTE_VALUES = [int(x) for x in NOTECMD]

U32 = (1 << 32) - 1
ALPHABET = ["a", "Z", "0", " ", "-", "_", "é", "ß", "Ж", "中", "→", "\U0001d11e", "\U0001f600"]
# layout >= 2: also characters that text codecs and normalisers give a special meaning to
ALPHABET2 = ALPHABET + ["\ufeff", "\u200b", "\u00a0", "\u0301", "\u200f", "\ufffd", "\t", "\n", "\x01", "\x7f", "\u2028", "\ud7ff", "\ue000", "\U0010ffff", "/", "\\", "%", "{", "'", '"']

# The interpretation of raw op values has versions ("layouts").  Layout 1 is frozen: stored
# replay files were recorded with it.  New cases carry "layout": 2 (or later).
CUR_LAYOUT = 1


def set_layout(n):
    global CUR_LAYOUT
    CUR_LAYOUT = n or 1


def mix(v, i=0):
    return seeds.splitmix64((v + 0x9E37 * (i + 1)) & seeds.MASK)


def text_from(v, maxlen=40):
    n = v % (maxlen + 1)
    alpha = ALPHABET2 if CUR_LAYOUT >= 2 else ALPHABET
    return "".join(alpha[mix(v, i) % len(alpha)] for i in range(n))


def bytes_from(v, maxlen):
    n = v % (maxlen + 1)
    return bytes(mix(v, i) & 0xFF for i in range(n))


def pick_int(v, lo, hi):
    if hi <= lo:
        return lo
    m = v & 7
    w = v >> 3
    if m == 0:
        return lo
    if m == 1:
        return hi
    if m == 2:
        return lo + 1
    if m == 3:
        return hi - 1
    if m == 4 and lo <= 0 <= hi:
        return 0
    if m == 5 and CUR_LAYOUT >= 2:
        # small magnitudes around zero and powers of two: -2, -1, 1, 2, 255, 256, ...
        cands = [x for x in (-2, -1, 1, 2, 127, 128, 255, 256, 257, -128, -129, 32767, 32768, 65535) if lo <= x <= hi]
        if cands:
            return cands[w % len(cands)]
    return lo + w % (hi - lo + 1)


def pick_u32(v):
    return pick_int(v, 0, U32)


def pick_i32(v):
    return pick_int(v, -(1 << 31), (1 << 31) - 1)


# ---------------------------------------------------------------------------
# slots: (label, setter(v))


def _attr_slot(obj, name, conv):
    return (name, lambda v: setattr(obj, name, conv(v)))


def controller_domain_value(mod, name, v):
    """An in-domain value for controller `name` of `mod` under its *current* unit."""
    ctl = mod.controllers[name]
    t = ctl.instance_value_type(mod)
    if hasattr(ctl, "controller"):
        real = ctl.controller(mod)
        if real is not ctl:
            t = real.value_type
    if isinstance(t, Range):
        return pick_int(v, t.min, t.max)
    if t is bool:
        return bool(v & 1)
    if isinstance(t, type) and issubclass(t, Enum):
        members = list(t)
        m = members[(v >> 2) % len(members)]
        style = v & 3
        if style == 1:
            return m.value
        if style == 2:
            return m.name
        return m
    return None


def set_controller(mod, name, v):
    val = controller_domain_value(mod, name, v)
    if val is None:
        return
    setattr(mod, name, val)
    # unit controllers before their dependants: a dependant whose range just changed is
    # brought back into the new range (what an editor would do)
    for dn, dc in mod.controllers.items():
        vt = dc.value_type
        if isinstance(vt, DependentRange) and vt.ctl_name == name:
            t = dc.instance_value_type(mod)
            cur = mod.controller_values.get(dn)
            if isinstance(t, Range) and isinstance(cur, int) and not (t.min <= cur <= t.max):
                setattr(mod, dn, max(t.min, min(t.max, cur)))


def set_option(mod, name, v):
    opt = mod.options[name]
    if name == "user_defined_controllers":
        val = (v >> 3) % 7 if v & 7 else (v >> 3) % 97
        setattr(mod, name, val)
        mod.update_user_defined_controllers()
        return
    if opt.size == 1:
        setattr(mod, name, bool(v & 1))
    else:
        setattr(mod, name, v % (1 << opt.size))


def set_cmid(mod, name, v):
    from rv.cmidmap import MidiMessageType, Slope

    mm = mod.controller_midi_maps[name]
    mm.channel = v & 0xFF
    mm.message_type = list(MidiMessageType)[(v >> 8) % len(MidiMessageType)]
    mm.message_parameter = (v >> 16) & 0xFFFF
    mm.slope = list(Slope)[(v >> 32) % len(Slope)]


def pick_index(v, values, zero=0):
    """Element index biased to the boundaries of the list and of its non-default run
    (first, last, last non-default element, the one after it), uniform otherwise."""
    n = len(values)
    if CUR_LAYOUT < 2:
        return v % n  # layout 1 (frozen)
    m = v & 7
    w = v >> 3
    if m == 0:
        return 0
    if m == 1:
        return n - 1
    if m in (2, 3):
        last = -1
        for j in range(n - 1, -1, -1):
            if values[j] != zero:
                last = j
                break
        if last >= 0:
            return last if m == 2 else min(n - 1, last + 1)
    return w % n


def _arr_slot(label, values, lo, hi, conv=None, chunk=None, attr="values"):
    """In-place element write; with layout >= 2 also whole-list assignment through the
    public `values` attribute (a fresh copy of the class default / a fresh full list)."""

    def setter(v):
        vals = getattr(chunk, attr) if chunk is not None else values
        if CUR_LAYOUT >= 2 and chunk is not None and (v >> 3) % 16 in (0, 1):
            kind = (v >> 3) % 16
            default = getattr(type(chunk), "default", None)
            if kind == 0 and isinstance(default, list):
                setattr(chunk, attr, list(default))  # "restore the default curve / waveform"
                return
            n = len(vals)
            setattr(chunk, attr, [(conv(pick_int(mix(v, j), lo, hi)) if conv else pick_int(mix(v, j), lo, hi)) for j in range(n)])
            return
        i = pick_index(v, vals)
        x = pick_int(v >> 10, lo, hi)
        vals[i] = conv(x) if conv else x

    return (label, setter)


def f32(x):
    return struct.unpack("<f", struct.pack("<f", x))[0]


def payload_slots(mod, session):
    t = type(mod).__name__
    s = []
    if t in ("Generator", "AnalogGenerator"):
        s.append(_arr_slot("drawn_waveform.samples", mod.drawn_waveform.samples, -128, 127, chunk=mod.drawn_waveform, attr="samples"))
    elif t == "Fmx":
        s.append(_arr_slot("custom_waveform", mod.custom_waveform.values, -32768, 32767, lambda x: f32(x / 32768.0), chunk=mod.custom_waveform))
    elif t == "MultiSynth":
        s.append(_arr_slot("nv_curve", mod.nv_curve.values, 0, 255, chunk=mod.nv_curve))
        s.append(_arr_slot("vv_curve", mod.vv_curve.values, 0, 255, chunk=mod.vv_curve))
        s.append(_arr_slot("np_curve", mod.np_curve.values, 0, 65535, chunk=mod.np_curve))
    elif t == "WaveShaper":
        s.append(_arr_slot("curve", mod.curve.values, 0, 65535, chunk=mod.curve))
    elif t == "MultiCtl":
        s.append(_arr_slot("curve", mod.curve.values, 0, 32768, chunk=mod.curve))

        def set_mapping(v):
            m = mod.mappings.values[v % 16]
            f = ("min", "max", "controller", "flags", "future_use2", "future_use3", "future_use4", "future_use5")[(v >> 4) % 8]
            setattr(m, f, pick_u32(v >> 8))

        s.append(("mapping", set_mapping))
    elif t == "SpectraVoice":
        def set_harm(v):
            h = mod.harmonics[v % 16]
            f = (v >> 4) % 4
            w = v >> 8
            if f == 0:
                h.freq_hz = pick_int(w, 0, 65535)
            elif f == 1:
                h.volume = pick_int(w, 0, 255)
            elif f == 2:
                h.width = pick_int(w, 0, 255)
            else:
                members = list(mod.HarmonicType)
                h.type = members[w % len(members)]

        s.append(("harmonic", set_harm))
    elif t == "VorbisPlayer":
        def set_data(v):
            if CUR_LAYOUT >= 2 and v % 16 == 7:
                mod.data = bytes(mix(v, j) & 0xFF for j in range(64)) * (256 + (v >> 8) % 512)  # 16-48 KiB
                return
            if CUR_LAYOUT >= 2 and v % 64 == 9:
                mod.data = bytes(mix(v, j) & 0xFF for j in range(256)) * (4200 + (v >> 8) % 2000)  # 1-1.5 MiB
                return
            mod.data = None if v % 5 == 0 else bytes_from(v, 512)

        s.append(("data", set_data))
    elif t == "MetaModule":
        def set_mapping(v):
            proj = mod.project
            i = v % max(1, min(96, mod.user_defined_controllers + 1))
            m = mod.mappings.values[i]
            if CUR_LAYOUT >= 2:
                # mappings name existing embedded controllers: re-mapping an attached user
                # controller to a non-existent target leaves its *live* value type stale (the
                # loader resets it), which is C15's question, not C01's - see DESIGN §13
                valid = [x for x in proj.modules if x is not None and x.index > 0 and len(x.controllers) > 0]
                if not valid:
                    return
                tgt = valid[(v >> 8) % len(valid)]
                m.module = tgt.index
                m.controller = (v >> 16) % len(tgt.controllers)
            else:
                m.module = (v >> 8) % (len(proj.modules) + 2)
                tgt = proj.modules[m.module] if m.module < len(proj.modules) else None
                nctl = len(tgt.controllers) if tgt is not None else 3
                m.controller = (v >> 16) % (nctl + 2)
            # The loader refreshes the user-defined controllers' value types after reading the
            # mappings; a live MetaModule only does so when asked.  Refresh here unless the new
            # target is a plain non-negative range (then live and loaded value spaces coincide
            # and the *stale* state - e.g. a value above the new target's maximum - is a
            # legitimate thing to save); see DESIGN §5/C01 and §13.
            skip = False
            if CUR_LAYOUT >= 2 and tgt is not None and (v >> 40) & 1:
                ctls = list(tgt.controllers.values())
                if m.controller < len(ctls):
                    tt = ctls[m.controller].instance_value_type(tgt)
                    cur = mod.user_defined[i].value_type
                    skip = type(tt) is Range and tt.min >= 0 and type(cur) is Range and cur.min >= 0
            if not skip:
                mod.update_user_defined_controllers()

        def set_label(v):
            i = v % 96
            mod.user_defined[i].label = None if (v >> 8) % 5 == 0 else text_from(v >> 11, 20)

        s.append(("mappings", set_mapping))
        s.append(("label", set_label))
    elif t == "Sampler":
        s.extend(sampler_slots(mod, session))
    return s


def _envelopes(mod):
    return [mod.volume_envelope, mod.panning_envelope, mod.pitch_envelope] + list(mod.effect_control_envelopes)


def sampler_slots(mod, session):
    s = []

    def set_sample(v):
        i = (v % 4) if (v >> 2) & 3 else (v >> 4) % 128
        w = v >> 12
        kind = w % 12
        w >>= 4
        smp = mod.samples[i]
        if smp is None or kind == 0:
            smp = mod.samples[i] = Sampler.Sample()
            smp.format = list(Sampler.Format)[w % 3]
            smp.channels = list(Sampler.Channels)[(w >> 2) % 2]
            smp.data = bytes_from(w >> 3, 64) * 4
            if CUR_LAYOUT >= 2 and (w >> 20) % 16 == 3:
                smp.data = smp.data * 256 + bytes(8)  # a sample of tens of KiB
            smp.data = smp.data[: len(smp.data) - len(smp.data) % 8]
            return
        if kind == 1:
            mod.samples[i] = None
        elif kind == 2:
            d = bytes_from(w, 64) * 4
            smp.data = d[: len(d) - len(d) % 8]
        elif kind == 3:
            smp.format = list(Sampler.Format)[w % 3]
            smp.channels = list(Sampler.Channels)[(w >> 2) % 2]
        elif kind == 4:
            smp.rate = pick_u32(w)
        elif kind == 5:
            smp.loop_type = list(Sampler.LoopType)[w % 3]
            smp.loop_sustain = bool((w >> 2) & 1)
        elif kind == 6:
            smp.loop_start = pick_u32(w)
            smp.loop_len = pick_u32(w >> 7)
        elif kind == 7:
            smp.volume = pick_int(w, 0, 64)
            smp.finetune = pick_int(w >> 9, -128, 127)
        elif kind == 8:
            smp.panning = pick_int(w, -128, 127)
            smp.relative_note = pick_int(w >> 9, -128, 127)
        elif kind == 9:
            smp.reserved2 = pick_int(w, 0, 255)
            smp.start_pos = pick_u32(w >> 9)
        else:
            smp.name = bytes_from(w, 22).rstrip(b"\0")

    def set_envelope(v):
        envs = _envelopes(mod)
        e = envs[v % len(envs)]
        w = v >> 4
        kind = w % (11 if CUR_LAYOUT >= 2 else 6)
        if kind > 8:
            kind = 8  # joint edits of several envelopes: three in eleven
        w >>= 3 if CUR_LAYOUT < 2 else 4
        lo, hi = e.range
        if kind == 8:
            # joint edit: several envelopes get new point lists in one go (boundary-biased lengths),
            # so that combinations such as "one envelope empty, another one custom" are reached
            for j, ee in enumerate(envs):
                if (w >> j) & 1:
                    continue
                ww = mix(w, j)
                n = (0, 1, 12, 13, 16)[(ww >> 4) % 5] if ww & 1 else (ww >> 4) % 17
                pts, x = [], 0
                for q in range(n):
                    x = min(65535, x + mix(ww, q) % 300)
                    pts.append((x, pick_int(mix(ww, q + 100), ee.range[0], ee.range[1])))
                ee.points = pts
            return
        if kind in (6, 7):
            # edit ONE point in place (x or y), leaving the rest of the envelope alone; the point
            # index comes from the low bits so that a focused history returns to the same point
            if not e.points:
                e.points = [(0, lo)]
            j = (v >> 7) % len(e.points)
            x, y = e.points[j]
            if kind == 6:
                small = [c for c in (-2, -1, 0, 1, 2) if lo <= c <= hi]
                y = small[(w >> 1) % len(small)] if (w & 1 and small) else pick_int(w >> 1, lo, hi)
            else:
                x = pick_int(w, 0, 65535)
            e.points[j] = (x, y)
            return
        if kind == 0:
            n = w % 13
            if CUR_LAYOUT >= 2:
                # list lengths are boundary-biased like values: empty, one, the legacy maximum, beyond it
                n = (0, 1, 12, 13, 16)[(w >> 4) % 5] if w & 1 else (w >> 4) % 17
            pts = []
            x = 0
            for j in range(n):
                x = min(65535, x + mix(w, j) % 300)
                pts.append((x, pick_int(mix(w, j + 100), lo, hi)))
            e.points = pts
        elif kind == 1:
            e.enable = bool(w & 1)
            e.sustain = bool(w & 2)
            e.loop = bool(w & 4)
        elif kind == 2:
            # point *indices*: 0..255 is what both the 16-bit envelope field and the legacy
            # 8-bit copy in the instrument record can hold (a larger value makes the writer
            # raise struct.error - C16's domain, noted in DESIGN, not asserted here)
            e.sustain_point = pick_int(w, 0, 255)
        elif kind == 3:
            e.loop_start_point = pick_int(w, 0, 255)
            e.loop_end_point = pick_int(w >> 17, 0, 255)
        elif kind == 4:
            e.ctl_index = pick_int(w, 0, 255)
            e.gain_pct = pick_int(w >> 9, 0, 255)
        else:
            e.velocity = pick_int(w, 0, 255)

    def set_note_sample(v):
        keys = list(mod.note_samples.keys())
        vals = [mod.note_samples[k] for k in keys]
        mod.note_samples[keys[pick_index(v, vals)]] = pick_int(v >> 8, 0, 127)

    def set_ins(v):
        kind = v % (11 if CUR_LAYOUT >= 2 else 9)
        w = v >> 4
        if kind == 0:
            mod.instrument_name = bytes_from(w, 22).rstrip(b"\0")
        elif kind == 1:
            mod.volume_old = pick_int(w, 0, 255)
        elif kind == 2:
            mod.ins_finetune = pick_int(w, -128, 127)
        elif kind == 3:
            mod.ins_relative_note = pick_int(w, -128, 127)
        elif kind == 4:
            mod.editor_cursor = pick_i32(w)
        elif kind == 5:
            mod.editor_selected_size = pick_i32(w)
        elif kind == 6:
            mod.vibrato_type = list(Sampler.VibratoType)[w % 3]
            mod.vibrato_attack = pick_int(w >> 2, 0, 255)
        elif kind == 7:
            mod.vibrato_depth = pick_int(w, 0, 255)
            mod.vibrato_rate = pick_int(w >> 9, 0, 63)
        elif kind == 8 or CUR_LAYOUT < 2:
            mod.volume_fadeout = pick_int(w, 0, 8192)
        elif kind == 9:
            mod.version = pick_int(w, 0, 6)  # instrument format revision stored in the record
        else:
            mod.max_version = pick_int(w, 0, 6)

    def set_effect(v):
        if v % 4 == 0:
            mod.effect = None
            return
        cls = SIMPLE_TYPES[(v >> 2) % len(SIMPLE_TYPES)]
        m = cls()
        names = [n for n, c in m.controllers.items() if c.attached(m)]
        if names:
            set_controller(m, names[(v >> 9) % len(names)], v >> 14)
        mod.effect = Synth(m)

    s.append(("sample", set_sample))
    s.append(("envelope", set_envelope))
    s.append(("note_samples", set_note_sample))
    s.append(("instrument", set_ins))
    s.append(("effect", set_effect))
    return s


def unencodable_targets(m, p=None):
    """(object, attribute, value): plain attributes and a value each accepts on assignment but that does not
    fit the attribute's binary slot, so that the next save is refused by the packer."""
    targets = [(m, "scale", -1), (m, "mod_finetune", 2 ** 40), (m, "midi_out_bank", 2 ** 40)]
    if p is not None:
        targets += [(m, "x", 2 ** 40), (m, "y", -(2 ** 40)), (p, "initial_bpm", -1), (p, "global_volume", 2 ** 33)]
    if isinstance(m, Sampler):
        for smp in m.samples:
            if smp is not None:
                targets += [(smp, "finetune", 1000), (smp, "relative_note", -1000), (smp, "volume", -5)] * 2
                break
        targets += [(m.volume_envelope, "sustain_point", 70000), (m.panning_envelope, "loop_end_point", 70000)] * 2
    if isinstance(m, MetaModule) and m.project is not None:
        inner = [x for x in m.project.modules if x is not None]
        for x in inner[:4]:
            targets += [(x, "x", 2 ** 40), (x, "scale", -1), (m.project, "initial_bpm", -1)]
    return targets


def signed_targets(mod, in_project=True):
    """(label, setter(y)) for every signed scalar of `mod`: common fields, controllers whose plain
    range reaches below zero, Sampler envelope point y values and sample tuning.  Used by the `neg`
    op, which writes small negative numbers there: -1 and -2 are the one pair of in-domain ints
    whose CPython hashes collide, i.e. what a hash-stamped "unchanged since load" shortcut confuses."""
    t = []
    for f in ("mod_finetune", "mod_relative_note", "midi_out_bank", "midi_out_program") + (("x", "y") if in_project else ()):
        t.append((f, (lambda f: lambda y: setattr(mod, f, y))(f)))
    for n, c in mod.controllers.items():
        if not c.attached(mod):
            continue
        vt = c.instance_value_type(mod)
        if type(vt) is Range and vt.min <= -2:
            t.append(("ctl." + n, (lambda n: lambda y: setattr(mod, n, y))(n)))
    if type(mod).__name__ == "Sampler":
        for ei, e in enumerate(_envelopes(mod)):
            if e.range[0] <= -2:
                for j in range(len(e.points)):
                    t.append(("env%d.pt%d" % (ei, j), (lambda e, j: lambda y: e.points.__setitem__(j, (e.points[j][0], y)))(e, j)))
        for si, smp in enumerate(mod.samples):
            if smp is not None:
                t.append(("smp%d.finetune" % si, (lambda smp: lambda y: setattr(smp, "finetune", y))(smp)))
                t.append(("smp%d.relative_note" % si, (lambda smp: lambda y: setattr(smp, "relative_note", y))(smp)))
    return t


def apply_neg(mod, op, in_project=True):
    t = signed_targets(mod, in_project)
    if not t:
        return "skip"
    label, setter = t[op.get("a", 0) % len(t)]
    setter(op.get("y", -1))
    return "neg:%s.%s=%d" % (type(mod).__name__, label, op.get("y", -1))


def module_slots(mod, session=None, in_project=True, layout=None):
    """layout 1 = the original flat list (kept so that stored replay files keep selecting
    the slots they were recorded with); layout 2 repeats the type-specific payload slots
    so that they are chosen about as often as all the generic slots together."""
    if layout is None:
        layout = getattr(session, "layout", 1) if session is not None else 1
    s = []
    is_output = type(mod).__name__ == "Output"
    if not is_output:
        s.append(("name", lambda v: setattr(mod, "name", text_from(v))))

    def set_flags(v):
        f = mod.default_flags
        for i, bit in enumerate((0x80, 0x100, 0x4000, 0x2000000)):
            if (v >> i) & 1:
                f |= bit
        mod.flags = f

    s.append(("flags", set_flags))
    s.append(_attr_slot(mod, "mod_finetune", pick_i32))
    s.append(_attr_slot(mod, "mod_relative_note", pick_i32))
    if type(mod).__name__ != "Smooth":
        s.append(_attr_slot(mod, "scale", pick_u32))
    s.append(_attr_slot(mod, "color", lambda v: (v & 0xFF, (v >> 8) & 0xFF, (v >> 16) & 0xFF)))
    s.append(_attr_slot(mod, "midi_in_always", lambda v: bool(v & 1)))
    s.append(_attr_slot(mod, "midi_in_channel", lambda v: v % 17))
    s.append(_attr_slot(mod, "midi_out_name", lambda v: None if v % 3 == 0 else (text_from(v >> 2, 24) or "x")))
    s.append(_attr_slot(mod, "midi_out_channel", lambda v: v % 17))
    s.append(_attr_slot(mod, "midi_out_bank", pick_i32))
    s.append(_attr_slot(mod, "midi_out_program", pick_i32))
    if in_project:
        s.append(_attr_slot(mod, "x", pick_i32))
        s.append(_attr_slot(mod, "y", pick_i32))
        s.append(_attr_slot(mod, "layer", lambda v: v % 8))
        s.append(_attr_slot(mod, "visualization", pick_u32))
    for n, c in mod.controllers.items():
        if c.attached(mod):
            s.append(("ctl." + n, (lambda n: lambda v: set_controller(mod, n, v))(n)))
    for n in mod.options:
        s.append(("opt." + n, (lambda n: lambda v: set_option(mod, n, v))(n)))
    att = [n for n, c in mod.controllers.items() if c.attached(mod)]
    if att:
        s.append(("cmid", lambda v: set_cmid(mod, att[v % len(att)], v >> 8)))
    pay = payload_slots(mod, session)
    s.extend(pay)
    if layout >= 2 and pay:
        reps = max(1, len(s) // len(pay)) - 1
        s.extend(pay * min(reps, 12))
    return s


def project_slots(p):
    s = []
    for f in ("flags", "initial_bpm", "initial_tpl", "time_grid", "time_grid2", "global_volume", "modules_scale", "modules_zoom",
              "modules_layer_mask", "modules_current_layer", "selected_module", "current_pattern", "current_track", "current_line"):
        s.append(_attr_slot(p, f, pick_u32))
    for f in ("modules_x_offset", "modules_y_offset", "timeline_position", "restart_position", "selected_generator"):
        s.append(_attr_slot(p, f, pick_i32))
    s.append(_attr_slot(p, "receive_sync_midi", lambda v: v % 8))
    s.append(_attr_slot(p, "receive_sync_other", lambda v: v % 8))
    s.append(_attr_slot(p, "name", text_from))
    s.append(_attr_slot(p, "based_on_version", lambda v: (v & 0xFF, (v >> 8) & 0xFF, (v >> 16) & 0xFF, (v >> 24) & 0xFF)))
    return s


def pattern_slots(pat):
    s = []
    if isinstance(pat, PatternClone):
        s.append(_attr_slot(pat, "flags_PFFF", pick_u32))
        s.append(_attr_slot(pat, "x", pick_i32))
        s.append(_attr_slot(pat, "y", pick_i32))
        return s
    s.append(_attr_slot(pat, "name", lambda v: None if v % 4 == 0 else text_from(v >> 2)))
    s.append(_attr_slot(pat, "y_size", pick_u32))
    s.append(_attr_slot(pat, "flags_PFLG", pick_u32))
    s.append(_attr_slot(pat, "flags_PFFF", pick_u32))
    s.append(_attr_slot(pat, "icon", lambda v: bytes(mix(v, i) & 0xFF for i in range(32))))
    s.append(_attr_slot(pat, "fg_color", lambda v: (v & 0xFF, (v >> 8) & 0xFF, (v >> 16) & 0xFF)))
    s.append(_attr_slot(pat, "bg_color", lambda v: (v & 0xFF, (v >> 8) & 0xFF, (v >> 16) & 0xFF)))
    s.append(_attr_slot(pat, "x", pick_i32))
    s.append(_attr_slot(pat, "y", pick_i32))
    return s


# ---------------------------------------------------------------------------
# link requests (C07 alphabet)


def build_link_request(project, op, foreign=None):
    """-> (callable performing the request, [(from_mod, to_mod, disconnect)] it denotes).
    Forms: call, rshift, lshift, chain_r, chain_l.  `neg` bit i negates operand i of
    the flattened (from..., to...) operand list; a negated operand is never the left
    operand of an operator (that is a TypeError in Python itself)."""
    mods = [m for m in project.modules if m is not None]
    pool = mods
    fpool = [m for m in foreign.modules if m is not None] if foreign is not None else []

    def pick(sel):
        if isinstance(sel, list) and sel and sel[0] == "f":
            return fpool[sel[1] % len(fpool)] if fpool else pool[sel[1] % len(pool)]
        return pool[sel % len(pool)]

    frm = [pick(x) for x in op["from"]] or [pool[0]]
    to = [pick(x) for x in op["to"]] or [pool[0]]
    neg = op.get("neg", 0)
    nf = [(neg >> i) & 1 for i in range(len(frm))]
    nt = [(neg >> (len(frm) + i)) & 1 for i in range(len(to))]
    form = op.get("form", "call")
    from_list = op.get("from_list", len(frm) > 1)
    to_list = op.get("to_list", len(to) > 1)
    if len(frm) > 1:
        from_list = True
    if len(to) > 1:
        to_list = True

    def wrap(ms, ns):
        return [(~m if n else m) for m, n in zip(ms, ns)]

    pairs = [(f, t, bool(a or b)) for f, a in zip(frm, nf) for t, b in zip(to, nt)]

    if form == "call":
        a = wrap(frm, nf)
        b = wrap(to, nt)
        a = a if from_list else a[0]
        b = b if to_list else b[0]
        return (lambda: project.connect(a, b)), pairs
    if form in ("rshift", "lshift"):
        # left operand must be a plain Module (or ModuleList): no ~, no plain list
        left_ms, left_ns = (frm, nf) if form == "rshift" else (to, nt)
        right_ms, right_ns = (to, nt) if form == "rshift" else (frm, nf)
        left = left_ms[0]
        right = wrap(right_ms, right_ns)
        right = right if (to_list if form == "rshift" else from_list) else right[0]
        if form == "rshift":
            pairs = [(left, t, bool(b)) for t, b in zip(to, nt)]
            return (lambda: left >> right), pairs
        pairs = [(f, left, bool(a)) for f, a in zip(frm, nf)]
        return (lambda: left << right), pairs
    if form in ("chain_r", "chain_l"):
        # a >> [b, c] >> d   /   a << [b, c] << d  (ModuleList as left operand)
        first = frm[0]
        middle = list(to)
        last = pick(op.get("last", 0))
        if form == "chain_r":
            pairs = [(first, m, False) for m in middle] + [(m, last, False) for m in middle]
            return (lambda: first >> middle >> last), pairs
        pairs = [(m, first, False) for m in middle] + [(last, m, False) for m in middle]
        return (lambda: first << middle << last), pairs
    raise ValueError(form)


# ---------------------------------------------------------------------------
# the interpreter


class Session:
    """One actor's editor session over one project."""

    def __init__(self, project=None, depth=0, layout=1):
        self.project = project if project is not None else Project()
        self.depth = depth
        self.layout = layout
        self.errors = {}
        self.foreign = None  # another party's project: operands taken from it must be refused
        self.root = None  # the top-level container this (sub)project is saved with; None: the project itself

    # live sets
    def mods(self):
        return [m for m in self.project.modules if m is not None]

    def pats(self):
        return [p for p in self.project.patterns if p is not None]

    def real_pats(self):
        return [p for p in self.project.patterns if isinstance(p, Pattern)]

    def note_error(self, e):
        k = type(e).__name__
        self.errors[k] = self.errors.get(k, 0) + 1

    def apply(self, op):
        """Returns an outcome string.  Library refusals (RadiantVoicesError) are outcomes;
        anything else the library raises on an in-domain op is recorded as 'error:<Type>'."""
        set_layout(self.layout)
        try:
            return self._apply(op) or "ok"
        except rv.errors.RadiantVoicesError as e:
            self.note_error(e)
            return "refused:" + type(e).__name__
        except (KeyboardInterrupt, SystemExit):
            raise
        except BaseException as e:
            from .simio import HarnessTimeout

            if isinstance(e, HarnessTimeout):
                raise
            self.note_error(e)
            return "error:" + type(e).__name__

    def _bad(self, op):
        """An operation that is expected NOT to run to completion: a refused or raising call, an
        aborted or abandoned save, a raising user callable.  Nothing is asserted about the call itself
        (the properties that speak about refusals have their own worlds); what counts is that the
        ordinary operations that FOLLOW still satisfy the world's oracles."""
        from .simio import Ctx, HarnessTimeout, SimCancel, SimFile

        kind = op.get("kind", 0) % N_BAD
        v = op.get("v", 0)
        p = self.project
        ms = self.mods()
        m = ms[op.get("m", 0) % len(ms)]
        what = BAD_KINDS[kind]
        injected = False
        try:
            if what == "ctl_out_of_range":
                cands = [(n, c.instance_value_type(m)) for n, c in m.controllers.items() if c.attached(m)]
                cands = [(n, t) for n, t in cands if type(t) is Range]
                if not cands:
                    return "bad:skip"
                n, t = cands[(v >> 4) % len(cands)]
                val = t.max + 1 + (v >> 20) % 1000 if (v >> 3) & 1 else t.min - 1 - (v >> 20) % 1000
                with rv.errors.override_raise_controller_value_errors(True):
                    setattr(m, n, val)
            elif what == "ctl_wrong_type":
                names = [n for n, c in m.controllers.items() if c.attached(m)]
                if not names:
                    return "bad:skip"
                setattr(m, names[(v >> 4) % len(names)], ("no-such-member", object(), [1], 1.5j)[(v >> 12) % 4])
            elif what == "attach_foreign":
                f = self._foreign_project()
                fm = [x for x in f.modules if x is not None]
                p.attach_module(fm[(v >> 4) % len(fm)])
            elif what == "connect_foreign":
                f = self._foreign_project()
                fm = [x for x in f.modules if x is not None]
                if (v >> 3) & 1:
                    p.connect(fm[(v >> 4) % len(fm)], m)
                else:
                    p.connect([m, ms[(v >> 9) % len(ms)]], [ms[(v >> 14) % len(ms)], fm[(v >> 4) % len(fm)]])
            elif what == "callable_raises":
                ps = self.real_pats()
                if not ps:
                    return "bad:skip"
                pat = ps[(v >> 4) % len(ps)]
                at = op.get("at", 0)
                seen = [0]

                class _Boom(Exception):
                    pass

                from rv.note import Note

                def fn(pattern, line, track):
                    seen[0] += 1
                    if seen[0] > at:
                        raise _Boom("user callable gives up")
                    return Note(note=NOTECMD.NOTE_OFF, vel=1 + (line + track) % 120)

                injected = True
                pat.set_via_fn(fn)
            elif what == "aborted_save":
                ctx = Ctx([{"kind": ("write_eio", "write_enospc", "write_cancel")[(v >> 4) % 3], "at": op.get("at", 0)}])
                injected = True
                out = SimFile(ctx, 0, b"", "arg", "w")
                ctx.streams.append(out)
                p.write_to(out)
            elif what == "abandoned_writer":
                gen = p.chunks()
                for _ in range(1 + op.get("at", 0)):
                    if next(gen, None) is None:
                        break
                if (v >> 3) & 1:
                    gen.close()
                del gen
                return "bad:abandoned_writer"
            elif what == "bad_constructor_kw":
                cls = SIMPLE_TYPES[(v >> 4) % len(SIMPLE_TYPES)]
                p.new_module(cls, **{("no_such_controller", "volume", "volume")[(v >> 12) % 3]: ("x" * 3, object(), -10 ** 9)[(v >> 16) % 3]})
            elif what in ("aborted_save_sweep", "abandoned_writer_sweep"):
                # fault enumeration inside a history: the save of the top-level container is cut short at EVERY
                # write index (resp. its chunks() generator abandoned after every chunk), one attempt after the other
                top = self.root if self.root is not None else p
                n_chunks = sum(1 for _ in top.chunks())
                if what == "abandoned_writer_sweep":
                    step = max(1, n_chunks // 64)
                    # from the last chunk down to the first: what an attempt cut at chunk i leaves behind is then
                    # followed only by attempts that stop before reaching that point again
                    for cut in reversed(range(0, n_chunks, step)):
                        gen = top.chunks()
                        for _ in range(cut + 1):
                            if next(gen, None) is None:
                                break
                        if (v >> 3) & 1:
                            gen.close()
                        del gen
                    return "bad:abandoned_writer_sweep:%d" % n_chunks
                n_writes = 3 * n_chunks
                step = max(1, n_writes // 64)
                kinds_ = ("write_eio", "write_enospc", "write_cancel", "write_short")
                done = 0
                for at in reversed(range((v >> 5) % step, n_writes, step)):
                    ctx = Ctx([{"kind": kinds_[(at + (v >> 9)) % 3], "at": at}])
                    out = SimFile(ctx, 0, b"", "arg", "w")
                    ctx.streams.append(out)
                    try:
                        top.write_to(out)
                    except (KeyboardInterrupt, SystemExit, HarnessTimeout):
                        raise
                    except BaseException as e:
                        if not ctx.fired and not env.raised_in_rv(e):
                            raise
                    done += 1
                return "bad:aborted_save_sweep:%d" % done
            elif what == "synth_export_aborted":
                # the module is exported as a .sunsynth while it stays attached: Synth(module).write_to(stream)
                # hits a write fault, or Synth(module).chunks() is abandoned half way
                if type(m).__name__ == "Output":
                    return "bad:skip"
                syn = Synth(m)
                n_chunks = sum(1 for _ in syn.chunks())
                cut = op.get("at", 0) % max(1, n_chunks)
                if (v >> 3) & 1:
                    gen = syn.chunks()
                    for _ in range(cut + 1):
                        if next(gen, None) is None:
                            break
                    if (v >> 4) & 1:
                        gen.close()
                    del gen
                    return "bad:synth_export_abandoned"
                ctx = Ctx([{"kind": ("write_eio", "write_enospc", "write_cancel")[(v >> 5) % 3], "at": (op.get("at", 0) * 3 + (v >> 7) % 3) % max(1, 3 * n_chunks)}])
                injected = True
                out = SimFile(ctx, 0, b"", "arg", "w")
                ctx.streams.append(out)
                syn.write_to(out)
            elif what == "unencodable_save":
                # a plain attribute takes a value that is accepted on assignment but does not fit its binary
                # slot; the save of the top-level container is refused; the caller puts the old value back
                top = self.root if self.root is not None else p
                mms = [x for x in ms if isinstance(x, MetaModule)]
                if mms and (v >> 2) & 1:
                    m = mms[(v >> 20) % len(mms)]  # prefer a value deep inside: in a module of an embedded project
                targets = unencodable_targets(m, p)
                obj, attr, val = targets[(v >> 4) % len(targets)]
                if not hasattr(obj, attr):
                    return "bad:skip"
                old_val = getattr(obj, attr)
                setattr(obj, attr, val)
                try:
                    top.read()
                    res = "accepted"
                except (KeyboardInterrupt, SystemExit, HarnessTimeout):
                    raise
                except BaseException as e:
                    res = type(e).__name__
                finally:
                    setattr(obj, attr, old_val)
                return "bad:unencodable_save:%s:%s" % (attr, res)
            elif what == "generator_raises":
                ps = self.real_pats()
                if not ps:
                    return "bad:skip"
                pat = ps[(v >> 4) % len(ps)]
                other = ps[(v >> 9) % len(ps)]
                # always gives up before the last cell: a COMPLETED edit that places one Note object in two
                # grids is the caller's mistake, not an aftermath
                at = op.get("at", 0) % max(1, pat.lines * pat.tracks)

                class _Boom2(Exception):
                    pass

                def gen(pattern, new):
                    k_ = 0
                    for line in range(pattern.lines):
                        for track in range(pattern.tracks):
                            if k_ >= at:
                                raise _Boom2("user generator gives up")
                            # hands over LIVE notes (of this or of another pattern of the project), as a rotation would
                            src = other if (v >> 14) & 1 else pattern
                            yield line, track, src.data[(line + 1) % src.lines][track % src.tracks]
                            k_ += 1

                injected = True
                pat.set_via_gen(gen)
            elif what == "attach_twice_other":
                # a module of THIS project offered to the foreign project (refused), then used normally here
                f = self._foreign_project()
                f.attach_module(m) if type(m).__name__ != "Output" else f.attach_module(p.output)
            else:
                raise ValueError(what)
        except (KeyboardInterrupt, SystemExit, HarnessTimeout):
            raise
        except BaseException as e:
            if not injected and not isinstance(e, SimCancel) and not env.raised_in_rv(e):
                raise
            return "bad:%s:%s" % (what, type(e).__name__)
        return "bad:%s:accepted" % what

    def _foreign_project(self):
        if self.foreign is None:
            f = Project()
            f.new_module(SIMPLE_TYPES[3])
            f.new_module(SIMPLE_TYPES[9])
            self.foreign = f
        return self.foreign

    def _apply(self, op):
        k = op["k"]
        p = self.project
        if k == "bgload":
            from . import noise

            return "bgload:" + noise.run(op).split(":")[0]
        if k == "mod":
            pool = TYPES if op.get("any", True) else SIMPLE_TYPES
            cls = pool[op["t"] % len(pool)]
            m = p.new_module(cls)
            return "mod:" + cls.__name__
        if k == "modkw":
            # construct with keyword arguments (controllers, options, common fields), then
            # attach the configured free module through attach_module or +=
            pool = SIMPLE_TYPES
            cls = pool[op["t"] % len(pool)]
            probe = cls()
            kw = {}
            names = [n for n, c in probe.controllers.items() if c.attached(probe) and not isinstance(c.value_type, DependentRange)]
            for sel, v in op.get("kw", ()):
                if names:
                    n = names[sel % len(names)]
                    val = controller_domain_value(probe, n, v)
                    if val is not None:
                        kw[n] = val
            for j, (sel, v) in enumerate(op.get("okw", ())):
                onames = list(probe.options)
                if onames:
                    n = onames[sel % len(onames)]
                    o = probe.options[n]
                    kw[n] = bool(v & 1) if o.size == 1 else v % (1 << o.size)
            c = op.get("common", 0)
            if c & 1:
                kw["name"] = text_from(c >> 8, 30)
            if c & 2:
                kw["x"] = pick_i32(c >> 9)
                kw["y"] = pick_i32(c >> 13)
            if c & 4:
                kw["layer"] = (c >> 5) % 8
            if c & 8:
                kw["color"] = ((c >> 8) & 0xFF, (c >> 16) & 0xFF, (c >> 24) & 0xFF)
            if c & 16:
                kw["finetune"] = pick_int(c >> 7, -256, 256)
                kw["relative_note"] = pick_int(c >> 11, -128, 128)
            m = cls(**kw)
            if c & 32:
                p += m
            else:
                p.attach_module(m)
            return "modkw:" + cls.__name__
        if k == "clone_mod":
            ms = [m for m in self.mods() if type(m).__name__ != "Output"]
            if not ms:
                return "skip"
            src = ms[op["m"] % len(ms)]
            c = src.clone()
            p.attach_module(c)
            return "clone_mod:" + type(src).__name__
        if k == "macro":
            ms = [m for m in self.mods() if type(m).__name__ not in ("Output", "MultiCtl") and m.controllers]
            if not ms:
                return "skip"
            pairs = []
            used = set()
            for sel, csel in op.get("pairs", ())[:4]:
                m = ms[sel % len(ms)]
                if m.index in used:
                    continue
                used.add(m.index)
                names = [n for n, c in m.controllers.items() if c.attached(m)]
                if names:
                    pairs.append((m, names[csel % len(names)]))
            if not pairs:
                return "skip"
            M.MultiCtl.macro(p, *pairs)
            return "macro"
        if k == "udscn":
            # scenario macro: a MetaModule user-defined controller is mapped, given a value, and
            # re-mapped to another embedded controller (each step optionally without the refresh
            # a loader would do) - the multi-step state single random ops almost never reach
            mms = [m for m in self.mods() if isinstance(m, MetaModule)]
            if not mms:
                mm = p.new_module(MetaModule)
            else:
                mm = mms[op.get("mm", 0) % len(mms)]
            sub = Session(mm.project, self.depth + 1, self.layout)
            while len([x for x in sub.mods() if type(x).__name__ != "Output"]) < 2:
                sub.apply({"k": "mod", "t": op.get("t", 0) + len(sub.mods()) * 7, "any": False})
            emb = [x for x in mm.project.modules if x is not None and type(x).__name__ != "Output"]
            i = op.get("i", 0) % 4
            if mm.user_defined_controllers <= i:
                mm.user_defined_controllers = i + 1
                # newly exposed user controllers may already carry a mapping: refresh, as a loader would
                mm.update_user_defined_controllers()
            outs = []
            for step, key in enumerate(("a", "b")):
                msel, csel = op.get(key, [0, 0])
                tgt = emb[msel % len(emb)]
                names = list(tgt.controllers)
                mp = mm.mappings.values[i]
                mp.module = tgt.index
                mp.controller = csel % len(names)
                # the refresh may be skipped only between plain non-negative ranges (see set_mapping)
                tt = tgt.controllers[names[mp.controller]].instance_value_type(tgt)
                cur = mm.user_defined[i].value_type
                may_skip = type(tt) is Range and tt.min >= 0 and type(cur) is Range and cur.min >= 0
                if (op.get("update", 0) >> step) & 1 or not may_skip:
                    mm.update_user_defined_controllers()
                if step == 0:
                    ud = mm.user_defined[i]
                    t = ud.value_type
                    try:
                        if isinstance(t, Range):
                            setattr(mm, ud.name, pick_int(op.get("v", 0), t.min, t.max))
                        outs.append("set")
                    except rv.errors.RadiantVoicesError:
                        outs.append("refused")
                    except (IndexError, ValueError, TypeError, AttributeError):
                        outs.append("error")
            return "udscn:" + ",".join(outs)
        if k == "twin":
            # scenario macro: two modules with identical (non-default) payload in one project
            ms = [m for m in self.mods() if type(m).__name__ != "Output"]
            pay = [m for m in ms if payload_slots(m, self)]
            pool = pay if (pay and op.get("pay", 1)) else ms
            if not pool:
                pool = [p.new_module(TYPES[op.get("t", 0) % len(TYPES)])]
            src = pool[op.get("m", 0) % len(pool)]
            slots = payload_slots(src, self) or module_slots(src, self)
            for j, v in enumerate(op.get("vs", ())):
                label, setter = slots[(op.get("s", 0) + j) % len(slots)]
                try:
                    setter(v)
                except (rv.errors.RadiantVoicesError, IndexError, ValueError):
                    pass
            c = src.clone()
            p.attach_module(c)
            return "twin:" + type(src).__name__
        if k == "hubscn":
            # scenario macro: one source toggles links to many destinations (long out tables,
            # freed slots, slot numbers that keep growing because freed slots are never reused)
            while len(self.mods()) < 2 + op.get("fan", 3) % 20:
                p.new_module(SIMPLE_TYPES[(op.get("t", 0) + len(self.mods())) % len(SIMPLE_TYPES)])
            ms = self.mods()
            hub = ms[op.get("hub", 1) % len(ms)]
            n = op.get("n", 10)
            for j in range(n):
                d = ms[mix(op.get("v", 0), j) % len(ms)]
                if mix(op.get("v", 0), j + 1000) % 3 == 0:
                    p.connect(hub, ~d)
                else:
                    p.connect(hub, d)
            return "hubscn:%d" % n
        if k == "neg":
            ms = self.mods()
            pref = [m for m in ms if type(m).__name__ == "Sampler"] if op.get("smp") else []
            pool = pref or ms
            return apply_neg(pool[op["m"] % len(pool)], op)
        if k == "bad":
            return self._bad(op)
        if k == "set":
            ms = self.mods()
            m = ms[op["m"] % len(ms)]
            slots = module_slots(m, self)
            label, setter = slots[op["s"] % len(slots)]
            setter(op["v"])
            return "set:%s.%s" % (type(m).__name__, label)
        if k == "pset":
            slots = project_slots(p)
            label, setter = slots[op["s"] % len(slots)]
            setter(op["v"])
            return "pset:" + label
        if k == "pat":
            kind = op.get("kind", 0) % 4
            if kind == 3 and not self.real_pats():
                kind = 0
            if kind == 2:
                p.attach_pattern(None)
                return "pat:none"
            if kind == 3:
                idxs = [i for i, x in enumerate(p.patterns) if isinstance(x, Pattern)]
                src = idxs[op.get("src", 0) % len(idxs)]
                p.attach_pattern(PatternClone(source=src))
                return "pat:clone"
            lines = 1 + op.get("lines", 3) % 16
            tracks = 1 + op.get("tracks", 3) % 8
            p.attach_pattern(Pattern(lines=lines, tracks=tracks))
            return "pat:pattern"
        if k == "tset":
            ps = self.pats()
            if not ps:
                return "skip"
            pat = ps[op["p"] % len(ps)]
            slots = pattern_slots(pat)
            label, setter = slots[op["s"] % len(slots)]
            setter(op["v"])
            return "tset:" + label
        if k == "cell":
            ps = self.real_pats()
            if not ps:
                return "skip"
            pat = ps[op["p"] % len(ps)]
            n = pat.data[op["l"] % pat.lines][op["t"] % pat.tracks]
            v = op["v"]
            f = op.get("f", 5) % 6
            if f in (0, 5):
                n.note = NOTE_VALUES[v % len(NOTE_VALUES)]
            if f in (1, 5):
                n.vel = (v >> 8) % 130
            if f in (2, 5):
                n.module = (v >> 16) & 0xFFFF if (v >> 60) & 1 else (v >> 16) % (len(p.modules) + 2)
            if f in (3, 5):
                n.ctl = (v >> 32) & 0xFFFF
            if f in (4, 5):
                n.val = (v >> 48) & 0xFFFF if f == 4 else (v >> 44) & 0xFFFF
            return "cell"
        if k == "link":
            call, _ = build_link_request(p, op, foreign=self.foreign)
            call()
            return "link"
        if k == "embed":
            ms = [m for m in self.mods() if isinstance(m, MetaModule)]
            if not ms or self.depth >= 2:
                return "skip"
            mm = ms[op["m"] % len(ms)]
            sub = Session(mm.project, self.depth + 1, self.layout)
            sub.root = self.root if self.root is not None else self.project
            out = sub.apply(op["op"])
            for kk, vv in sub.errors.items():
                self.errors[kk] = self.errors.get(kk, 0) + vv
            # what the loader does after reading a MetaModule; see DESIGN §5/C01
            mm.update_user_defined_controllers()
            return "embed:" + out
        raise ValueError("unknown op %r" % (op,))


def _offset(t):
    return -t.min if isinstance(t, Range) and t.min < 0 and type(t).__name__ != "NoOffsetRange" else 0


def normalise_metamodules(obj, depth=0):
    """Compare like with like (DESIGN §5/C01): a *live* MetaModule refreshes the value types of its
    user-defined controllers only when asked, a loaded one always has them refreshed.  Where the
    stale live type and the type the loader will derive disagree about the stored encoding
    (different offset, or a non-range target), do what the loader does; harmless staleness (two
    ranges with the same offset, e.g. a value above the new target's maximum) is left alone,
    because live and loaded then agree and such states are legitimate things to save."""
    if depth > 6 or obj is None:
        return
    name = type(obj).__name__
    if name == "Project":
        for m in obj.modules:
            if m is not None:
                normalise_metamodules(m, depth + 1)
    elif name == "Synth":
        normalise_metamodules(obj.module, depth + 1)
    elif name == "Sampler":
        normalise_metamodules(obj.effect, depth + 1)
    elif name == "MetaModule":
        normalise_metamodules(obj.project, depth + 1)
        proj = obj.project
        stale = False
        for i, (mp, ud) in enumerate(zip(obj.mappings.values, obj.user_defined)):
            if i >= obj.user_defined_controllers:
                break
            tgt = proj.modules[mp.module] if proj is not None and 0 < mp.module < len(proj.modules) else None
            if tgt is None:
                want = None
            else:
                ctls = list(tgt.controllers.values())
                want = ctls[mp.controller].instance_value_type(tgt) if mp.controller < len(ctls) else None
            have = ud.value_type
            if want is None:
                continue  # the loader leaves this one alone as well
            if not (isinstance(want, Range) and isinstance(have, Range) and _offset(want) == _offset(have)):
                stale = True
        if stale:
            obj.update_user_defined_controllers()


# ---------------------------------------------------------------------------
# seeded op generation (state independent)


def gen_op(r, weights=None, depth=0):
    w = weights or DEFAULT_WEIGHTS
    k = r.choices(list(w), weights=list(w.values()))[0]
    big = r.getrandbits(62)
    if k == "mod":
        return {"k": "mod", "t": r.randrange(1000)}
    if k == "modkw":
        return {"k": "modkw", "t": r.randrange(1000), "kw": [[r.randrange(100), r.getrandbits(40)] for _ in range(r.randint(0, 3))],
                "okw": [[r.randrange(100), r.getrandbits(20)] for _ in range(r.randint(0, 2))], "common": r.getrandbits(40)}
    if k == "clone_mod":
        return {"k": "clone_mod", "m": r.randrange(1000)}
    if k == "macro":
        return {"k": "macro", "pairs": [[r.randrange(100), r.randrange(100)] for _ in range(r.randint(1, 4))]}
    if k == "udscn":
        return {"k": "udscn", "mm": r.randrange(10), "t": r.randrange(1000), "i": r.randrange(4), "a": [r.randrange(20), r.randrange(40)], "b": [r.randrange(20), r.randrange(40)],
                "v": big, "update": r.choice([0, 0, 1, 2, 3])}
    if k == "twin":
        return {"k": "twin", "m": r.randrange(100), "t": r.randrange(1000), "s": r.randrange(100), "vs": [r.getrandbits(62) for _ in range(r.randint(1, 4))], "pay": r.random() < 0.8}
    if k == "hubscn":
        return {"k": "hubscn", "hub": r.randrange(100), "fan": r.randrange(20), "t": r.randrange(1000), "n": r.choice([5, 20, 40, 300]), "v": big}
    if k == "bad":
        return {"k": "bad", "kind": r.randrange(N_BAD), "m": r.randrange(1000), "v": big, "at": r.choice([0, 1, 2, 3, 5, 8, 13, r.randrange(200)])}
    if k == "set":
        return {"k": "set", "m": r.randrange(1000), "s": r.randrange(100000), "v": big}
    if k == "pset":
        return {"k": "pset", "s": r.randrange(1000), "v": big}
    if k == "pat":
        return {"k": "pat", "kind": r.choice([0, 0, 1, 2, 3]), "lines": r.randrange(16), "tracks": r.randrange(8), "src": r.randrange(100)}
    if k == "tset":
        return {"k": "tset", "p": r.randrange(100), "s": r.randrange(100), "v": big}
    if k == "cell":
        return {"k": "cell", "p": r.randrange(100), "l": r.randrange(64), "t": r.randrange(32), "f": r.randrange(6), "v": r.getrandbits(64)}
    if k == "link":
        return gen_link_op(r)
    if k == "embed":
        if depth >= 2:
            return gen_op(r, {kk: vv for kk, vv in w.items() if kk != "embed"}, depth)
        return {"k": "embed", "m": r.randrange(100), "op": gen_op(r, w, depth + 1)}
    raise ValueError(k)


def gen_link_op(r, foreign_p=0.0):
    form = r.choice(["call", "call", "rshift", "rshift", "lshift", "chain_r", "chain_l"])

    def sel():
        if foreign_p and r.random() < foreign_p:
            return ["f", r.randrange(100)]
        return r.randrange(100)

    nf = 1 if form in ("rshift", "chain_r", "chain_l") or r.random() < 0.6 else r.randint(2, 3)
    nt = 1 if form == "lshift" or r.random() < 0.5 else r.randint(2, 4)
    op = {"k": "link", "form": form, "from": [sel() for _ in range(nf)], "to": [sel() for _ in range(nt)]}
    if form in ("call", "rshift", "lshift") and r.random() < 0.35:
        op["neg"] = r.getrandbits(nf + nt)
    if form.startswith("chain"):
        op["last"] = sel()
    if r.random() < 0.2:
        op["from_list"] = True
    if r.random() < 0.2:
        op["to_list"] = True
    return op


BAD_KINDS = ("ctl_out_of_range", "ctl_wrong_type", "attach_foreign", "connect_foreign", "callable_raises", "aborted_save", "abandoned_writer", "bad_constructor_kw", "attach_twice_other",
             "aborted_save_sweep", "abandoned_writer_sweep", "synth_export_aborted", "unencodable_save", "aborted_save_sweep", "unencodable_save", "generator_raises")
N_BAD = len(BAD_KINDS)
WEIGHTS_V1 = {"mod": 3, "set": 10, "pset": 2, "pat": 1.5, "tset": 1, "cell": 3, "link": 4, "embed": 1.5}  # frozen: layout-1 gen specs
WEIGHTS_V2 = {"mod": 3, "set": 10, "pset": 2, "pat": 1.5, "tset": 1, "cell": 3, "link": 4, "embed": 1.5, "modkw": 1.2, "clone_mod": 0.8, "udscn": 0.5, "twin": 0.4, "hubscn": 0.15}  # frozen: layout-2 gen specs
DEFAULT_WEIGHTS = dict(WEIGHTS_V2, bad=1.2)


def gen_ops(r, n, weights=None, first_mods=3):
    ops = [{"k": "mod", "t": r.randrange(1000)} for _ in range(first_mods)]
    ops += [gen_op(r, weights) for _ in range(n)]
    return ops


def generated_file(spec):
    """Bytes of a library-written project built from a seeded op list."""
    r = seeds.rng(spec["seed"], "genfile")
    s = Session(layout=spec.get("layout", 1))
    ops = []
    if spec.get("nest"):
        ops += [{"k": "mod", "t": TYPE_NAMES.index("MetaModule")}, {"k": "mod", "t": TYPE_NAMES.index("Sampler")}]
        ops += [{"k": "embed", "m": 0, "op": {"k": "mod", "t": TYPE_NAMES.index("MetaModule")}}]
        ops += [{"k": "embed", "m": 0, "op": {"k": "mod", "t": r.randrange(1000)}}]
    if spec.get("nest") and spec.get("layout", 1) >= 2:
        ops += [gen_op(r, {"udscn": 1}), gen_op(r, {"udscn": 1}), {"k": "mod", "t": TYPE_NAMES.index("MetaModule")}, gen_op(r, {"udscn": 1}), gen_op(r, {"twin": 1}), gen_op(r, {"twin": 1})]
        ops += [{"k": "mod", "t": TYPE_NAMES.index("MultiCtl")}, gen_op(r, {"twin": 1}), dict(gen_op(r, {"hubscn": 1}), n=r.choice([20, 40]))]
    ops += gen_ops(r, spec.get("n", 25), WEIGHTS_V1 if spec.get("layout", 1) < 2 else WEIGHTS_V2)
    for op in ops:
        s.apply(op)
    if spec.get("huge"):
        # size swarm at file level: a project of several MiB (a Sampler with one long sample)
        smp_mod = s.project.new_module(M.Sampler)
        sm = smp_mod.samples[0] = Sampler.Sample()
        sm.data = bytes(mix(spec["seed"], j) & 0xFF for j in range(1024)) * (5 * 1024)
    if spec.get("big"):
        # size swarm at file level: an embedded project of tens of KiB (a VorbisPlayer with data inside a MetaModule)
        mm = next((m for m in s.mods() if isinstance(m, MetaModule)), None) or s.project.new_module(MetaModule)
        vp = mm.project.new_module(M.VorbisPlayer)
        vp.data = bytes(mix(spec["seed"], j) & 0xFF for j in range(97)) * 220
    if spec.get("nest"):
        for m in s.mods():
            if isinstance(m, Sampler) and m.effect is None:
                m.effect = Synth(M.Amplifier())
    return s.project.read()
