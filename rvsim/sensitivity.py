"""Sensitivity self-test: each hand-made mutant (a 1-3 line change that keeps the
repository's own tests green) is applied to a scratch copy of src/python outside /repo
and /verif; the quick check of its property, pointed at the copy through RV_SRC, must
exit 1 with a VIOLATION line.  Evidence and replays of these runs go to the scratch
directory, never to /verif/evidence."""
import importlib
import os
import shutil
import subprocess
import sys
import tempfile
import time

ROOT = os.path.dirname(os.path.dirname(os.path.abspath(__file__)))
SRC = os.environ.get("RV_SRC", "/repo/src/python")


def load_table():
    from . import mutants

    importlib.reload(mutants)
    return mutants.MUTANTS


def run_one(pid, name, edits, tier="quick", keep=False, extra_env=None):
    tmp = tempfile.mkdtemp(prefix="rvmut-")
    try:
        dst = os.path.join(tmp, "python")
        shutil.copytree(SRC, dst, ignore=shutil.ignore_patterns("__pycache__", "*.pyc"))
        for e in edits:
            if e[0] == "revert":
                d = subprocess.run(["git", "-C", "/repo", "diff", e[1] + "~1", e[1], "--", "src/python"], capture_output=True, text=True).stdout
                pr = subprocess.run(["patch", "-R", "-p3", "-s", "-d", dst], input=d, capture_output=True, text=True)
                if pr.returncode != 0:
                    return "BADMUTANT(revert %s: %s)" % (e[1], pr.stdout[-200:]), 0.0
                continue
            rel, old, new = e
            p = os.path.join(dst, rel)
            s = open(p).read()
            if s.count(old) != 1:
                return "BADMUTANT(%s: %d matches)" % (rel, s.count(old)), 0.0
            open(p, "w").write(s.replace(old, new))
        env = dict(os.environ)
        env.update(
            RV_SRC=dst,
            VERIF_EVIDENCE_DIR=os.path.join(tmp, "evidence"),
            VERIF_REPLAY_DIR=os.path.join(tmp, "replays"),
            VERIF_MINIMISE_S="5",
            VERIF_NO_FRESH_REPLAY="1",
        )
        env.update(extra_env or {})
        t0 = time.time()
        p = subprocess.run([os.path.join(ROOT, "check"), pid, tier], env=env, capture_output=True, text=True, timeout=1800)
        dt = time.time() - t0
        if p.returncode == 1 and "VIOLATION property=%s" % pid in p.stdout:
            return "caught", dt
        if p.returncode == 0:
            return "MISSED", dt
        return "ERROR(rc=%d) %s" % (p.returncode, (p.stderr or p.stdout)[-400:]), dt
    finally:
        if not keep:
            shutil.rmtree(tmp, ignore_errors=True)


def apply_edits(dst, edits):
    for e in edits:
        if e[0] == "revert":
            d = subprocess.run(["git", "-C", "/repo", "diff", e[1] + "~1", e[1], "--", "src/python"], capture_output=True, text=True).stdout
            pr = subprocess.run(["patch", "-R", "-p3", "-s", "-d", dst], input=d, capture_output=True, text=True)
            if pr.returncode != 0:
                return "revert %s failed" % e[1]
            continue
        rel, old, new = e
        p = os.path.join(dst, rel)
        s = open(p).read()
        if s.count(old) != 1:
            return "%s: %d matches" % (rel, s.count(old))
        open(p, "w").write(s.replace(old, new))
    return None


def tests_pass(edits):
    """Run the repository's own test suite against a scratch copy with the mutant applied.
    -> (ok, summary line).  A mutant that the suite already kills is not a useful mutant."""
    tmp = tempfile.mkdtemp(prefix="rvmut-t-")
    try:
        root = os.path.join(tmp, "repo")
        shutil.copytree("/repo", root, ignore=shutil.ignore_patterns(".git", "__pycache__", "*.pyc", "node_modules", "src/ts"))
        err = apply_edits(os.path.join(root, "src", "python"), edits)
        if err:
            return False, "BADMUTANT " + err
        env = dict(os.environ, PYTHONPATH=os.path.join(root, "src", "python"), PYTHONDONTWRITEBYTECODE="1")
        p = subprocess.run(["/venv/bin/python", "-m", "pytest", "-q", "-p", "no:cacheprovider", "--timeout=900", "--continue-on-collection-errors"],
                           cwd=root, env=env, capture_output=True, text=True, timeout=1800)
        last = [l for l in p.stdout.strip().splitlines() if l.strip()][-1] if p.stdout.strip() else ""
        ok = "170 passed" in last and "failed" not in last
        return ok, last
    finally:
        shutil.rmtree(tmp, ignore_errors=True)


def main_tests(argv):
    import concurrent.futures as cf

    table = load_table()
    want = [a.upper() for a in argv] or sorted(table)
    jobs = [(pid, name, edits) for pid in want for name, edits in table.get(pid, []) if not any(e[0] == "revert" for e in edits)]
    bad = 0
    with cf.ThreadPoolExecutor(max_workers=6) as ex:
        for (pid, name, edits), (ok, last) in zip(jobs, ex.map(lambda j: tests_pass(j[2]), jobs)):
            print("%-4s %-60s %s  [%s]" % (pid, name[:60], "suite-green" if ok else "SUITE-KILLS-IT", last[-60:]))
            sys.stdout.flush()
            bad += 0 if ok else 1
    print("mutants killed by the repository's own suite (not useful as sensitivity mutants): %d" % bad)
    return 0 if not bad else 1


def main_findings(argv):
    """Every stored regression trace of a *fixed* finding must reproduce once the fix commit
    is reverted (scratch copy), and must not reproduce on the current tree."""
    import json

    data = json.load(open(os.path.join(ROOT, "known_findings.json")))
    bad = 0
    for e in data["findings"]:
        if e["status"] != "fixed":
            continue
        tmp = tempfile.mkdtemp(prefix="rvmut-f-")
        try:
            dst = os.path.join(tmp, "python")
            shutil.copytree(SRC, dst, ignore=shutil.ignore_patterns("__pycache__", "*.pyc"))
            err = apply_edits(dst, [("revert", e["commit"])])
            for rp in e.get("replays", ()):
                path = os.path.join(ROOT, rp)
                cur = subprocess.run([os.path.join(ROOT, "check"), "--replay", path], capture_output=True, text=True)
                env = dict(os.environ, RV_SRC=dst)
                old = subprocess.run([os.path.join(ROOT, "check"), "--replay", path], env=env, capture_output=True, text=True)
                ok = cur.returncode == 0 and old.returncode == 1 and not err
                print("%-7s %-28s current tree: %s; with %s reverted: %s  %s" % (e["id"], rp, "clean" if cur.returncode == 0 else "REPRODUCES", e["commit"], "reproduces" if old.returncode == 1 else "DOES NOT REPRODUCE", "" if ok else "<<< CHECK"))
                bad += 0 if ok else 1
        finally:
            shutil.rmtree(tmp, ignore_errors=True)
    print("findings self-check: %d problems" % bad)
    return 0 if not bad else 1


def main(argv):
    if argv and argv[0] == "--tests":
        return main_tests(argv[1:])
    if argv and argv[0] == "--findings":
        return main_findings(argv[1:])
    table = load_table()
    tier = "quick"
    if argv and argv[0] in ("quick", "thorough"):
        tier = argv.pop(0)
    want = [a.upper() for a in argv] or sorted(table)
    bad = 0
    for pid in want:
        for name, edits in table.get(pid, []):
            verdict, dt = run_one(pid, name, edits, tier)
            print("%-4s %-44s %s (%.1fs)" % (pid, name, verdict, dt))
            sys.stdout.flush()
            if verdict != "caught":
                bad += 1
    print("sensitivity: %d not caught" % bad)
    return 0 if bad == 0 else 1
