"""Sensitivity self-test: each hand-made mutant (a 1-3 line change that keeps the
repository's own tests green) is applied to a scratch copy of src/python outside /repo
and /verif; the quick check of its property, pointed at the copy through RV_SRC, must
exit 1 with a VIOLATION line.  Evidence and replays of these runs go to the scratch
directory, never to /verif/evidence."""
import importlib
import os
import shutil
import subprocess
import sys
import tempfile
import time

ROOT = os.path.dirname(os.path.dirname(os.path.abspath(__file__)))
SRC = os.environ.get("RV_SRC", "/repo/src/python")


def load_table():
    from . import mutants

    importlib.reload(mutants)
    return mutants.MUTANTS


def run_one(pid, name, edits, tier="quick", keep=False, extra_env=None):
    tmp = tempfile.mkdtemp(prefix="rvmut-")
    try:
        dst = os.path.join(tmp, "python")
        shutil.copytree(SRC, dst, ignore=shutil.ignore_patterns("__pycache__", "*.pyc"))
        for e in edits:
            if e[0] == "revert":
                d = subprocess.run(["git", "-C", "/repo", "diff", e[1] + "~1", e[1], "--", "src/python"], capture_output=True, text=True).stdout
                pr = subprocess.run(["patch", "-R", "-p3", "-s", "-d", dst], input=d, capture_output=True, text=True)
                if pr.returncode != 0:
                    return "BADMUTANT(revert %s: %s)" % (e[1], pr.stdout[-200:]), 0.0
                continue
            rel, old, new = e
            p = os.path.join(dst, rel)
            s = open(p).read()
            if s.count(old) != 1:
                return "BADMUTANT(%s: %d matches)" % (rel, s.count(old)), 0.0
            open(p, "w").write(s.replace(old, new))
        env = dict(os.environ)
        env.update(
            RV_SRC=dst,
            VERIF_EVIDENCE_DIR=os.path.join(tmp, "evidence"),
            VERIF_REPLAY_DIR=os.path.join(tmp, "replays"),
            VERIF_MINIMISE_S="5",
            VERIF_NO_FRESH_REPLAY="1",
        )
        env.update(extra_env or {})
        t0 = time.time()
        p = subprocess.run([os.path.join(ROOT, "check"), pid, tier], env=env, capture_output=True, text=True, timeout=1800)
        dt = time.time() - t0
        if p.returncode == 1 and "VIOLATION property=%s" % pid in p.stdout:
            return "caught", dt
        if p.returncode == 0:
            return "MISSED", dt
        return "ERROR(rc=%d) %s" % (p.returncode, (p.stderr or p.stdout)[-400:]), dt
    finally:
        if not keep:
            shutil.rmtree(tmp, ignore_errors=True)


def main(argv):
    table = load_table()
    tier = "quick"
    if argv and argv[0] in ("quick", "thorough"):
        tier = argv.pop(0)
    want = [a.upper() for a in argv] or sorted(table)
    bad = 0
    for pid in want:
        for name, edits in table.get(pid, []):
            verdict, dt = run_one(pid, name, edits, tier)
            print("%-4s %-44s %s (%.1fs)" % (pid, name, verdict, dt))
            sys.stdout.flush()
            if verdict != "caught":
                bad += 1
    print("sensitivity: %d not caught" % bad)
    return 0 if bad == 0 else 1
