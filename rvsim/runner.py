"""Batch runner: shards work units over processes, merges coverage, classifies
violations against the known-findings file, minimises, writes replay + evidence."""
import concurrent.futures as cf
import faulthandler
import importlib
import json
import multiprocessing as mp
import os
import sys
import time
import traceback
from collections import Counter

from . import seeds

ROOT = os.path.dirname(os.path.dirname(os.path.abspath(__file__)))
EVIDENCE_DIR = os.environ.get("VERIF_EVIDENCE_DIR") or os.path.join(ROOT, "evidence")
REPLAY_DIR = os.environ.get("VERIF_REPLAY_DIR") or os.path.join(ROOT, "replays")
FINDINGS_FILE = os.path.join(ROOT, "known_findings.json")

CLAIMED = ["C01", "C05", "C06", "C07", "C08", "C12", "C14", "C17", "C18", "C19"]

UNIT_WATCHDOG_S = int(os.environ.get("VERIF_UNIT_WATCHDOG_S", 900))


def prop_module(pid):
    return importlib.import_module("rvsim.props.%s" % pid.lower())


# ---------------------------------------------------------------------------
# signatures


def sig_key(sig):
    """The part of a signature that identifies a violation *class* (stable under
    minimisation).  Everything under 'detail' is informative only."""
    return "|".join("%s=%s" % (k, sig[k]) for k in sorted(sig) if k != "detail")


def matches(sig, pattern):
    import fnmatch

    for k, v in pattern.items():
        if k not in sig:
            return False
        if not fnmatch.fnmatchcase(str(sig[k]), str(v)):
            return False
    return True


def load_findings(pid):
    try:
        with open(FINDINGS_FILE) as f:
            data = json.load(f)
    except FileNotFoundError:
        return []
    return [e for e in data.get("findings", []) if e.get("property") == pid]


# ---------------------------------------------------------------------------
# worker side


class IsolatedTimeout(RuntimeError):
    pass


def isolated_call(fn, *args, timeout=None):
    """Run fn(*args) in a forked child and return its (picklable) result.  The calling
    process never executes the system under test itself, so every call starts from the
    same pristine interpreter state: one case = one exactly repeatable execution, even
    if the code under test keeps hidden process-global state."""
    import pickle

    r, w = os.pipe()
    pid = os.fork()
    if pid == 0:
        code = 0
        try:
            os.close(r)
            try:
                out = ("ok", fn(*args))
            except BaseException:
                out = ("err", traceback.format_exc())
            with os.fdopen(w, "wb") as fh:
                pickle.dump(out, fh, protocol=pickle.HIGHEST_PROTOCOL)
        except BaseException:
            code = 3
        finally:
            os._exit(code)
    os.close(w)
    if timeout is not None:
        import select
        import signal

        chunks = []
        deadline = time.time() + timeout
        while True:
            left = deadline - time.time()
            if left <= 0:
                os.kill(pid, signal.SIGKILL)
                os.waitpid(pid, 0)
                os.close(r)
                raise IsolatedTimeout("isolated child exceeded %ss" % timeout)
            rd, _, _ = select.select([r], [], [], min(left, 1.0))
            if rd:
                b = os.read(r, 1 << 20)
                if not b:
                    break
                chunks.append(b)
        os.close(r)
        data = b"".join(chunks)
    else:
        with os.fdopen(r, "rb") as fh:
            data = fh.read()
    _, status = os.waitpid(pid, 0)
    if not data:
        raise RuntimeError("isolated child died without a result (status %r)" % status)
    kind, val = pickle.loads(data)
    if kind == "err":
        raise RuntimeError("in isolated child:\n" + val)
    return val


def _unit_body(pid, unit):
    faulthandler.dump_traceback_later(int(os.environ.get("VERIF_UNIT_WATCHDOG_S", UNIT_WATCHDOG_S)), exit=True)
    mod = prop_module(pid)
    t0 = time.time()
    res = mod.run_unit(unit)
    res["wall"] = time.time() - t0
    res["unit"] = unit
    return res


def _worker_run(args):
    pid, unit = args
    try:
        prop_module(pid)  # import only; the pool worker itself stays pristine
        return isolated_call(_unit_body, pid, unit)
    except BaseException:
        return {"harness_error": traceback.format_exc(), "unit": unit}


def _execute_with_noise(execute, case):
    """Run one case; fold what the background-noise ops did into the result (faults fired, digest)."""
    from . import noise

    noise.take()
    res = execute(case)
    fired, log = noise.take()
    if fired:
        f = dict(res.get("fired", {}))
        for k, v in fired.items():
            f[k] = f.get(k, 0) + v
        res["fired"] = f
        res["digest"] = seeds.digest([res.get("digest", ""), log])
    return res


class Acc:
    """What a unit reports back; merged in the parent."""

    def __init__(self):
        self.evals = 0
        self.steps = 0
        self.nontrivial = set()  # 64-bit hashes of distinct non-trivial cases
        self.states = set()  # 64-bit hashes of abstract states / interleavings
        self.fired = Counter()
        self.probes = Counter()
        self.samples = []
        self.failures = []  # {"case":..., "violations":[sig,...]}
        self.digest = 0
        self.skipped = Counter()
        self.recent = []
        self.first = None  # ops of the first case this worker ran (lazy initialisation captures it)

    def run(self, execute, case, seconds=60, isolate=False):
        from .simio import watchdog, HarnessTimeout

        try:
            with watchdog(seconds):
                res = isolated_call(_execute_with_noise, execute, case) if isolate else _execute_with_noise(execute, case)
        except HarnessTimeout:
            raise RuntimeError("case did not finish within %ds: %s" % (seconds, json.dumps(case)[:2000]))
        self.add_case_result(case, res)
        # hidden process-global state could make a verdict depend on earlier cases of
        # this worker: remember a short prefix so the parent can rebuild the history
        if res.get("violations") and self.failures and self.failures[-1]["case"] is case:
            self.failures[-1]["prefix_ops"] = [] if isolate else [op for ops in self.recent for op in ops]
            self.failures[-1]["isolated"] = bool(isolate)
            self.failures[-1]["first_ops"] = [] if isolate else list(self.first or ())
        if self.first is None:
            self.first = list(case.get("ops", ()))
        self.recent.append(list(case.get("ops", ())))
        del self.recent[:-3]
        return res

    def add_case_result(self, case, res, sample_cap=2, fail_cap=40):
        self.evals += 1
        self.steps += res.get("steps", len(case.get("ops", ())))
        for k in res.get("nontrivial", ()):
            self.nontrivial.add(k)
        for k in res.get("states", ()):
            self.states.add(k)
        self.fired.update(res.get("fired", {}))
        self.probes.update(res.get("probes", {}))
        self.skipped.update(res.get("skipped", {}))
        self.digest = seeds.h64(self.digest, res.get("digest", ""))
        if len(self.samples) < sample_cap:
            self.samples.append({"case": case, "outcome": res.get("outcome")})
        if res.get("violations"):
            if len(self.failures) < fail_cap:
                self.failures.append({"case": case, "violations": res["violations"]})
            else:
                self.probes["failures_dropped_over_cap"] += 1

    def to_dict(self):
        return {
            "evals": self.evals,
            "steps": self.steps,
            "nontrivial": list(self.nontrivial),
            "states": list(self.states),
            "fired": dict(self.fired),
            "probes": dict(self.probes),
            "skipped": dict(self.skipped),
            "samples": self.samples,
            "failures": self.failures,
            "digest": self.digest,
        }


# ---------------------------------------------------------------------------
# minimisation


def _has(mod, case, key):
    try:
        res = isolated_call(mod.execute, case, timeout=float(os.environ.get("VERIF_CANDIDATE_TIMEOUT_S", 30)))
    except IsolatedTimeout:
        print("warning: a minimisation candidate did not finish in time (dropped): %s" % json.dumps(case)[:300], file=sys.stderr)
        return None
    except Exception:
        return None
    for s in res.get("violations", ()):
        if sig_key(s) == key:
            return s
    return None


def minimise(mod, case, key, budget_s=25.0):
    """Delta debugging over the op list, then per-op simplification, accepting a
    candidate only if the same violation class persists."""
    t_end = time.time() + budget_s
    best = case
    ops = list(case["ops"])
    n = 2
    while len(ops) >= 2 and time.time() < t_end:
        chunk = max(1, len(ops) // n)
        reduced = False
        for i in range(0, len(ops), chunk):
            cand_ops = ops[:i] + ops[i + chunk :]
            if not cand_ops:
                continue
            cand = dict(best, ops=cand_ops)
            if _has(mod, cand, key):
                ops = cand_ops
                best = cand
                n = max(n - 1, 2)
                reduced = True
                break
            if time.time() > t_end:
                break
        if not reduced:
            if chunk == 1:
                break
            n = min(len(ops), n * 2)
    shrink = getattr(mod, "shrink_candidates", None)
    if shrink is not None:
        progress = True
        while progress and time.time() < t_end:
            progress = False
            for cand in shrink(best):
                if time.time() > t_end:
                    break
                if _has(mod, cand, key):
                    best = cand
                    progress = True
                    break
    return best


def _replay_in_fresh_process(path):
    import subprocess

    p = subprocess.run(
        [os.path.join(ROOT, "check"), "--replay", path],
        capture_output=True,
        text=True,
        timeout=300,
    )
    return p.returncode, p.stdout


# ---------------------------------------------------------------------------
# parent side


def run_check(pid, tier, seed, workers=None, quiet=False):
    t0 = time.time()
    mod = prop_module(pid)
    findings = load_findings(pid)
    units = mod.plan(tier, seed)
    budget = float(os.environ.get("VERIF_BUDGET_S", mod.BUDGET_S[tier]))
    if tier == "thorough":
        os.environ.setdefault("VERIF_UNIT_WATCHDOG_S", "5400")  # units of the thorough tier are long on purpose
    workers = workers or int(os.environ.get("VERIF_WORKERS", min(16, os.cpu_count() or 1)))
    print("seed=%d property=%s tier=%s units=%d workers=%d" % (seed, pid, tier, len(units), workers))
    sys.stdout.flush()

    total = Acc()
    total_digest = []
    harness_errors = []
    units_done = 0
    units_skipped = 0
    ctx = mp.get_context("fork")
    with cf.ProcessPoolExecutor(max_workers=workers, mp_context=ctx) as ex:
        pending = {}
        it = iter(enumerate(units))
        exhausted = False

        def submit_more():
            nonlocal exhausted, units_skipped
            while not exhausted and len(pending) < workers * 2:
                try:
                    i, u = next(it)
                except StopIteration:
                    exhausted = True
                    return
                if time.time() - t0 > budget:
                    units_skipped += 1
                    continue
                pending[ex.submit(_worker_run, (pid, u))] = i

        submit_more()
        results = {}
        hard_deadline = t0 + budget * 3 + 120
        while pending:
            done, _ = cf.wait(list(pending), timeout=5, return_when=cf.FIRST_COMPLETED)
            if not done and time.time() > hard_deadline:
                harness_errors.append("hard deadline exceeded; %d units pending" % len(pending))
                for p in list(ex._processes.values()):
                    p.kill()
                break
            for fut in done:
                i = pending.pop(fut)
                try:
                    results[i] = fut.result()
                except BaseException as e:  # BrokenProcessPool etc.
                    harness_errors.append("unit %d: %r" % (i, e))
            submit_more()

    for i in sorted(results):
        r = results[i]
        if "harness_error" in r:
            harness_errors.append("unit %r:\n%s" % (r["unit"], r["harness_error"]))
            continue
        units_done += 1
        total.evals += r["evals"]
        total.steps += r["steps"]
        total.nontrivial.update(r["nontrivial"])
        total.states.update(r["states"])
        total.fired.update(r["fired"])
        total.probes.update(r["probes"])
        total.skipped.update(r["skipped"])
        if len(total.samples) < 6:
            total.samples.extend(r["samples"][: 6 - len(total.samples)])
        total.failures.extend(r["failures"])
        total_digest.append(r["digest"])

    if harness_errors:
        for e in harness_errors[:5]:
            print("HARNESS-ERROR:", e, file=sys.stderr)
        print("harness errors: %d (no verdict)" % len(harness_errors))
        return 2

    # -- classify --------------------------------------------------------
    cands = {}
    for f in total.failures:
        size = len(json.dumps(f["case"]))
        for s in f["violations"]:
            rank = (0 if f.get("isolated") else 1, size)
            cands.setdefault(sig_key(s), []).append((rank, f["case"], s, f.get("prefix_ops") or [], f.get("first_ops") or []))
    by_key = {}
    for k, lst in cands.items():
        lst.sort(key=lambda t: t[0])
        lst = [t for t in lst if t[0][0] == 0][:4] + [t for t in lst if t[0][0] == 1][:3]
        by_key[k] = [(c, s, sz, pre, first) for sz, c, s, pre, first in lst]

    exit_code = 0
    new_violations = 0
    known_hit = {}
    os.makedirs(REPLAY_DIR, exist_ok=True)

    # stored traces of listed findings
    stored_traces = 0
    for e in findings:
        any_hit = False
        for rp in e.get("replays", ()):
            with open(os.path.join(ROOT, rp)) as fh:
                stored = json.load(fh)
            stored_traces += 1
            res = isolated_call(mod.execute, stored["case"])
            hit = [s for s in res.get("violations", ()) if matches(s, e["match"])]
            any_hit = any_hit or bool(hit)
            if e["status"] == "fixed" and hit:
                # a repaired defect came back: report like any other violation
                by_key.setdefault(sig_key(hit[0]), [(stored["case"], hit[0], 0, [])])
        if e["status"] == "open":
            if any_hit:
                known_hit[e["id"]] = e
            elif e.get("replays"):
                print("stale known finding %s: stored trace no longer reproduces" % e["id"], file=sys.stderr)

    minimise_budget = float(os.environ.get("VERIF_MINIMISE_S", 20))
    minimise_total_end = time.time() + float(os.environ.get("VERIF_MINIMISE_TOTAL_S", 150))
    if os.environ.get("VERIF_LIST_ONLY") == "1":
        for k in sorted(by_key):
            case, sig = by_key[k][0][:2]
            n = sum(1 for f in total.failures for s_ in f["violations"] if sig_key(s_) == k)
            print("CLASS %s  (n=%d)\n      %s" % (k, n, json.dumps(sig.get("detail"), sort_keys=True)[:400]))
        return 3
    for k in sorted(by_key):
        case, sig = by_key[k][0][:2]
        open_match = [e for e in findings if e["status"] == "open" and matches(sig, e["match"])]
        if open_match:
            known_hit[open_match[0]["id"]] = open_match[0]
            continue
        new_violations += 1
        if new_violations > 12:
            continue
        # prefer a failing case that reproduces on its own in a pristine process; if the
        # verdict depended on earlier cases of the same worker, rebuild that history
        for c, s_, _, pre, first in by_key[k]:
            if time.time() > minimise_total_end + 60:
                break
            if _has(mod, c, k):
                case, sig = c, s_
                break
            longer = dict(c, ops=pre + list(c["ops"]))
            if pre and _has(mod, longer, k):
                case, sig = longer, s_
                break
            # lazily initialised process state is captured from the first case a worker ran
            longest = dict(c, ops=first + pre + list(c["ops"]))
            if first and _has(mod, longest, k):
                case, sig = longest, s_
                break
        small = minimise(mod, case, k, max(2.0, min(minimise_budget, minimise_total_end - time.time())))
        name = "%s-%s.json" % (pid, seeds.digest(k))
        path = os.path.join(REPLAY_DIR, name)
        res = mod.execute(small)
        sig2 = next((s for s in res.get("violations", ()) if sig_key(s) == k), sig)
        with open(path, "w") as fh:
            json.dump(
                {
                    "property": pid,
                    "seed": seed,
                    "tier": tier,
                    "rv_src": os.environ.get("RV_SRC", "/repo/src/python"),
                    "case": small,
                    "signature": sig2,
                    "key": k,
                    "original_ops": len(case.get("ops", ())),
                    "minimised_ops": len(small.get("ops", ())),
                },
                fh,
                indent=1,
                sort_keys=True,
            )
        if os.environ.get("VERIF_NO_FRESH_REPLAY") != "1":
            rc, out = _replay_in_fresh_process(path)
            if rc != 1:
                print("warning: minimised replay did not reproduce in a fresh process (rc=%s)" % rc, file=sys.stderr)
        print("VIOLATION property=%s replay=%s" % (pid, path))
        print("  signature: %s" % json.dumps(sig2, sort_keys=True))
        exit_code = 1

    for fid in sorted(known_hit):
        e = known_hit[fid]
        print("KNOWN-FINDING: property=%s %s: %s" % (pid, fid, e["what"]))

    wall = time.time() - t0
    # -- evidence --------------------------------------------------------
    cov = {
        "evaluations": total.evals,
        "distinct_nontrivial": len(total.nontrivial),
        "rule": mod.RULE,
        "samples": [_trim_sample(x) for x in total.samples[:4]],
        "exhaustive": bool(getattr(mod, "EXHAUSTIVE", {}).get(tier, False)) and units_skipped == 0,
        "runs": total.evals,
        "steps": total.steps,
        "runs_per_hour": int(total.evals / max(wall, 1e-6) * 3600),
        "steps_per_hour": int(total.steps / max(wall, 1e-6) * 3600),
        "faults_fired": dict(sorted(total.fired.items())),
        "probes": dict(sorted(total.probes.items())),
        "distinct_states": len(total.states),
        "distinct_states_measure": getattr(mod, "STATE_MEASURE", "hash of canonical snapshot after each step"),
        "skipped": dict(sorted(total.skipped.items())),
        "units": len(units),
        "units_done": units_done,
        "units_skipped_over_budget": units_skipped,
        "workers": workers,
        "batch_digest": seeds.digest(*total_digest),
        "components": mod.COMPONENTS,
        "simulated_time": "not applicable: the system under test has no clocks or timers; progress is counted in simulator steps",
        "known_findings_reported": sorted(known_hit),
        "stored_regression_traces_replayed": stored_traces,
        "violation_classes": sorted(by_key),
    }
    extra = getattr(mod, "extra_coverage", None)
    if extra is not None:
        try:
            cov.update(isolated_call(extra, timeout=120))
        except Exception as e:  # informational only
            cov["extra_coverage_error"] = repr(e)
    ev = {
        "property_id": pid,
        "tier": tier,
        "seed": seed,
        "level": mod.LEVEL,
        "coverage": cov,
        "assumptions": mod.ASSUMPTIONS,
        "wall_s": round(wall, 2),
        "violations": new_violations,
    }
    os.makedirs(EVIDENCE_DIR, exist_ok=True)
    tmp = os.path.join(EVIDENCE_DIR, pid + ".json.tmp")
    with open(tmp, "w") as fh:
        json.dump(ev, fh, indent=1, sort_keys=True, default=str)
    os.replace(tmp, os.path.join(EVIDENCE_DIR, pid + ".json"))
    print(
        "done property=%s evaluations=%d distinct_nontrivial=%d steps=%d states=%d violations=%d known=%d wall=%.1fs"
        % (pid, total.evals, len(total.nontrivial), total.steps, len(total.states), new_violations, len(known_hit), wall)
    )
    return exit_code


def _trim_sample(sample, keep=30):
    """Samples are there to show what a case looks like; very long op lists are cut (with a count)."""
    case = dict(sample.get("case", {}))
    ops = case.get("ops", [])
    if len(ops) > keep:
        case["ops"] = ops[:keep]
        case["ops_total"] = len(ops)
    return {"case": case, "outcome": sample.get("outcome")}


def replay(path):
    with open(path) as fh:
        data = json.load(fh)
    pid = data["property"]
    mod = prop_module(pid)
    res = mod.execute(data["case"])
    want = data.get("key")
    hits = [s for s in res.get("violations", ()) if want is None or sig_key(s) == want]
    if not hits:  # signatures gain fields over time: fall back to the stored oracle name
        oracle = (data.get("signature") or {}).get("oracle")
        hits = [s for s in res.get("violations", ()) if s.get("oracle") == oracle]
    for s in res.get("violations", ()):
        print("  violation:", json.dumps(s, sort_keys=True))
    print("digest=%s" % res.get("digest"))
    if hits:
        print("VIOLATION property=%s replay=%s" % (pid, os.path.abspath(path)))
        return 1
    print("no violation reproduced")
    return 0
