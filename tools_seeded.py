#!/venv/bin/python
"""Confirm and evaluate an independently written breaking change ("seeded" change).

  tools_seeded.py confirm <src_dir> <ID> <property>   copy patch/demo/notes from an agent's worktree
                                                      into /verif/seeded/<ID>/ after confirming in a
                                                      scratch copy of /repo: suite green with the patch,
                                                      demo fails with it, demo passes without it
  tools_seeded.py run <ID> [tier] [property...]       run the property's check(s) against a scratch copy
                                                      of /repo/src/python with the patch applied
  tools_seeded.py runall [tier]                       every seeded change against its own property

Scratch copies live under /tmp and are removed afterwards; /repo itself is never touched.
"""
import json
import os
import shutil
import subprocess
import sys
import tempfile
import time

ROOT = os.path.dirname(os.path.abspath(__file__))
SEEDED = os.path.join(ROOT, "seeded")
BASELINE = "170 passed"


def scratch_repo():
    tmp = tempfile.mkdtemp(prefix="rvseed-")
    root = os.path.join(tmp, "repo")
    shutil.copytree("/repo", root, ignore=shutil.ignore_patterns(".git", "__pycache__", "*.pyc", "node_modules", "ts"))
    return tmp, root


def apply_patch(root, patch):
    p = subprocess.run(["patch", "-p1", "-s", "-d", root, "-i", patch], capture_output=True, text=True)
    return p.returncode == 0, (p.stdout + p.stderr)[-400:]


def run_suite(root):
    env = dict(os.environ, PYTHONPATH=os.path.join(root, "src", "python"), PYTHONDONTWRITEBYTECODE="1")
    p = subprocess.run(["/venv/bin/python", "-m", "pytest", "-q", "-p", "no:cacheprovider", "--timeout=900", "--continue-on-collection-errors"],
                       cwd=root, env=env, capture_output=True, text=True, timeout=1800)
    lines = [l for l in p.stdout.strip().splitlines() if l.strip()]
    last = lines[-1] if lines else ""
    return (BASELINE in last and "failed" not in last), last


def run_demo(root, demo_rel):
    env = dict(os.environ, PYTHONPATH=os.path.join(root, "src", "python"), PYTHONDONTWRITEBYTECODE="1")
    p = subprocess.run(["/venv/bin/python", demo_rel], cwd=root, env=env, capture_output=True, text=True, timeout=600)
    return p.returncode, (p.stdout + p.stderr)[-300:]


def confirm(src, sid, prop):
    dst = os.path.join(SEEDED, sid)
    tmp, root = scratch_repo()
    try:
        work = os.path.join(root, os.path.basename(os.path.normpath(src)))
        shutil.copytree(src, work)
        demo_rel = os.path.join(os.path.basename(os.path.normpath(src)), "demo.py")
        rc0, out0 = run_demo(root, demo_rel)
        ok, msg = apply_patch(root, os.path.join(src, "patch.diff"))
        if not ok:
            print("patch does not apply:", msg)
            return 1
        suite_ok, last = run_suite(root)
        rc1, out1 = run_demo(root, demo_rel)
        print("demo without patch: rc=%d; suite with patch: %s; demo with patch: rc=%d" % (rc0, last, rc1))
        if rc0 != 0 or not suite_ok or rc1 == 0:
            print("NOT CONFIRMED", out0, out1)
            return 1
        os.makedirs(dst, exist_ok=True)
        for f in ("patch.diff", "demo.py", "notes.md"):
            if os.path.exists(os.path.join(src, f)):
                shutil.copy(os.path.join(src, f), os.path.join(dst, f))
        meta = {
            "id": sid,
            "property": prop,
            "origin": "written by an independent sub-agent that saw only the property text and a scratch worktree of /repo",
            "confirmed": {
                "suite_with_patch": last,
                "demo_without_patch_rc": rc0,
                "demo_with_patch_rc": rc1,
                "how": "scratch copy of /repo under /tmp; patch -p1; pytest with PYTHONPATH=<copy>/src/python; demo.py run from <copy>/seeded_demo/",
                "repo_head": subprocess.run(["git", "-C", "/repo", "log", "--format=%h", "-1"], capture_output=True, text=True).stdout.strip(),
            },
            "needs_to_manifest": "see notes.md",
            "checks_run": {},
        }
        with open(os.path.join(dst, "meta.json"), "w") as f:
            json.dump(meta, f, indent=1)
        print("confirmed ->", dst)
        return 0
    finally:
        shutil.rmtree(tmp, ignore_errors=True)


def confirm_refactor(src, sid):
    """A behaviour-preserving refactoring: suite green with the patch, demo passes with and without."""
    dst = os.path.join(ROOT, "refactorings", sid)
    tmp, root = scratch_repo()
    try:
        work = os.path.join(root, os.path.basename(os.path.normpath(src)))
        shutil.copytree(src, work)
        demo_rel = os.path.join(os.path.basename(os.path.normpath(src)), "demo.py")
        rc0, out0 = run_demo(root, demo_rel) if os.path.exists(os.path.join(src, "demo.py")) else (0, "")
        ok, msg = apply_patch(root, os.path.join(src, "patch.diff"))
        if not ok:
            print("patch does not apply:", msg)
            return 1
        suite_ok, last = run_suite(root)
        rc1, out1 = run_demo(root, demo_rel) if os.path.exists(os.path.join(src, "demo.py")) else (0, "")
        print("demo without patch: rc=%d; suite with patch: %s; demo with patch: rc=%d" % (rc0, last, rc1))
        if rc0 != 0 or not suite_ok or rc1 != 0:
            print("NOT CONFIRMED", out0, out1)
            return 1
        os.makedirs(dst, exist_ok=True)
        for f in ("patch.diff", "demo.py", "notes.md"):
            if os.path.exists(os.path.join(src, f)):
                shutil.copy(os.path.join(src, f), os.path.join(dst, f))
        meta = {"id": sid, "kind": "behaviour-preserving refactoring (false-alarm probe)",
                "origin": "written by an independent sub-agent that saw the ten property texts and a scratch worktree of /repo",
                "confirmed": {"suite_with_patch": last, "demo_without_patch_rc": rc0, "demo_with_patch_rc": rc1}, "checks_run": {}}
        with open(os.path.join(dst, "meta.json"), "w") as f:
            json.dump(meta, f, indent=1)
        print("confirmed ->", dst)
        return 0
    finally:
        shutil.rmtree(tmp, ignore_errors=True)


def run_clean(sid, tier="quick", props=None):
    """Every check must stay quiet on a refactoring that preserves the properties."""
    d = os.path.join(ROOT, "refactorings", sid)
    meta = json.load(open(os.path.join(d, "meta.json")))
    props = props or ["C01", "C05", "C06", "C07", "C08", "C12", "C14", "C17", "C18", "C19"]
    tmp, root = scratch_repo()
    try:
        ok, msg = apply_patch(root, os.path.join(d, "patch.diff"))
        if not ok:
            print("patch does not apply:", msg)
            return
        for prop in props:
            env = dict(os.environ, RV_SRC=os.path.join(root, "src", "python"), RV_FIXTURES=os.path.join(root, "tests", "files"),
                       VERIF_EVIDENCE_DIR=os.path.join(tmp, "ev"), VERIF_REPLAY_DIR=os.path.join(tmp, "rp"), VERIF_MINIMISE_S="8", VERIF_MINIMISE_TOTAL_S="30", VERIF_NO_FRESH_REPLAY="1")
            t0 = time.time()
            p = subprocess.run([os.path.join(ROOT, "check"), prop, tier], env=env, capture_output=True, text=True, timeout=7200)
            dt = time.time() - t0
            sigs = [l.strip()[len("signature: "):][:400] for l in p.stdout.splitlines() if l.strip().startswith("signature:")]
            verdict = "quiet" if p.returncode == 0 else ("ALARM" if p.returncode == 1 else "error rc=%d" % p.returncode)
            meta.setdefault("checks_run", {})["%s:%s" % (prop, tier)] = {"verdict": verdict, "wall_s": round(dt, 1), "signatures": sigs[:3]}
            print("%-10s %s %-6s %s (%.0fs) %s" % (sid, prop, tier, verdict, dt, sigs[0][:200] if sigs else (p.stderr[-300:] if p.returncode not in (0, 1) else "")))
            sys.stdout.flush()
        with open(os.path.join(d, "meta.json"), "w") as f:
            json.dump(meta, f, indent=1)
    finally:
        shutil.rmtree(tmp, ignore_errors=True)


def run(sid, tier="quick", props=None):
    d = os.path.join(SEEDED, sid)
    meta = json.load(open(os.path.join(d, "meta.json")))
    props = props or [meta["property"]]
    tmp, root = scratch_repo()
    results = {}
    try:
        ok, msg = apply_patch(root, os.path.join(d, "patch.diff"))
        if not ok:
            print("patch does not apply:", msg)
            return None
        for prop in props:
            env = dict(os.environ, RV_SRC=os.path.join(root, "src", "python"), RV_FIXTURES=os.path.join(root, "tests", "files"),
                       VERIF_EVIDENCE_DIR=os.path.join(tmp, "ev"), VERIF_REPLAY_DIR=os.path.join(tmp, "rp"), VERIF_MINIMISE_S="8", VERIF_MINIMISE_TOTAL_S="40", VERIF_NO_FRESH_REPLAY="1")
            t0 = time.time()
            p = subprocess.run([os.path.join(ROOT, "check"), prop, tier], env=env, capture_output=True, text=True, timeout=7200)
            dt = time.time() - t0
            caught = p.returncode == 1 and ("VIOLATION property=%s" % prop) in p.stdout
            sigs = [l.strip()[len("signature: "):][:300] for l in p.stdout.splitlines() if l.strip().startswith("signature:")]
            verdict = "caught" if caught else ("missed" if p.returncode == 0 else "error rc=%d" % p.returncode)
            results[prop] = {"tier": tier, "verdict": verdict, "wall_s": round(dt, 1), "first_signatures": sigs[:3]}
            print("%-22s %s %-8s %s (%.0fs) %s" % (sid, prop, tier, verdict, dt, sigs[0][:160] if sigs else (p.stderr[-200:] if p.returncode not in (0, 1) else "")))
            sys.stdout.flush()
        meta.setdefault("checks_run", {})
        for prop, r in results.items():
            meta["checks_run"]["%s:%s" % (prop, tier)] = r
        with open(os.path.join(d, "meta.json"), "w") as f:
            json.dump(meta, f, indent=1)
        return results
    finally:
        shutil.rmtree(tmp, ignore_errors=True)


def main(argv):
    if argv[0] == "confirm":
        return confirm(argv[1], argv[2], argv[3])
    if argv[0] == "run":
        tier = argv[2] if len(argv) > 2 else "quick"
        run(argv[1], tier, argv[3:] or None)
        return 0
    if argv[0] == "confirm_refactor":
        return confirm_refactor(argv[1], argv[2])
    if argv[0] == "run_clean":
        run_clean(argv[1], argv[2] if len(argv) > 2 else "quick", argv[3:] or None)
        return 0
    if argv[0] == "runall":
        tier = argv[1] if len(argv) > 1 else "quick"
        for sid in sorted(os.listdir(SEEDED)):
            if os.path.exists(os.path.join(SEEDED, sid, "meta.json")):
                run(sid, tier)
        return 0
    print(__doc__)
    return 2


if __name__ == "__main__":
    sys.exit(main(sys.argv[1:]))
