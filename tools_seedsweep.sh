#!/bin/bash
# False-alarm soak: every quick check under many VERIF_SEED values on the unchanged tree.
# Any non-zero exit or VIOLATION line is printed. Evidence of these runs goes to a scratch dir.
cd "$(dirname "$0")"
from=${1:-1}; to=${2:-12}
tmp=$(mktemp -d /tmp/rvsweep-XXXX)
bad=0
for seed in $(seq $from $to); do
  for p in C01 C05 C06 C07 C08 C12 C14 C17 C18 C19; do
    out=$(VERIF_SEED=$seed VERIF_EVIDENCE_DIR=$tmp/ev VERIF_REPLAY_DIR=$tmp/rp VERIF_NO_FRESH_REPLAY=1 timeout 1800 ./check $p quick 2>&1)
    rc=$?
    if [ $rc -ne 0 ] || echo "$out" | grep -q "^VIOLATION"; then
      bad=$((bad+1)); echo "seed=$seed $p rc=$rc"; echo "$out" | grep -A1 "VIOLATION\|HARNESS" | head -6
      mkdir -p /tmp/rvsweep-keep; cp -r $tmp/rp /tmp/rvsweep-keep/rp-$seed-$p 2>/dev/null
    else
      echo "seed=$seed $p ok $(echo "$out" | tail -1 | sed 's/.*wall=//')"
    fi
  done
done
rm -rf $tmp
echo "seed sweep $from..$to: $bad bad runs"
