#!/venv/bin/python
"""Regenerates MANIFEST.json from the table below (kept as code so that it is always valid)."""
import json, os, sys

ROOT = os.path.dirname(os.path.abspath(__file__))

NA = {
    "C02": "pure function of one module value (quantifier: inputs x configurations): no schedule, fault, crash point or persisted history for a simulator to own; deciding it is property-based round-trip testing. Its in-project half is exercised (not asserted under this id) by C01's workload.",
    "C03": "conformance of written bytes to the documented format needs an independent decoder as oracle (differential / translation validation); nothing about one object's bytes varies with a fault or an order of events.",
    "C04": "decoding of an immutable byte string is a pure function of its input; the principal clause needs an independent reference encoder as oracle (differential testing), not a simulator.",
    "C09": "descriptor semantics per (type, controller, value) and a table comparison against the YAML spec: pure per-input relation. The one stateful clause (a load must not leave later assignments lenient) is decided under C18.",
    "C10": "the statement itself asks for complete enumeration of a finite pure map (about 5 million pairs); complete enumeration is model checking of a function, not seeded search over schedules and faults.",
    "C11": "pure bit packing over a finite domain that the statement says is enumerated completely; no interleaving, fault or history dimension.",
    "C13": "static comparison of import-time class metadata with a YAML file; there is no execution to simulate.",
    "C15": "pure save/load round trip over configurations (depth, count, mapping, label). MetaModules with embedded projects are part of the object population of C01/C06/C17 but are not asserted under this id.",
    "C16": "pure save/load round trip over Sampler inputs; no fault or schedule dimension. Samplers are part of the population of C01/C06/C17.",
    "C20": "convert_value is pure arithmetic over five parameters; containment and monotonicity are decided by sweeping the value axis (enumeration), the macro helper is a single call.",
}

CHECKS = {
    "C18": dict(
        level="fault_enumeration",
        text="Every load exit path reachable by one fault at a seam is enumerated for every fixture: a fault at each read/seek/tell call index of the top-level and of every nested stream, truncation at every chunk boundary and (dense) byte offset, open/close faults, both initial flag values, all three access modes; seeded multi-load histories (each in a pristine forked process) and byte flips on top. The oracle is exactly the statement: flag identical before/after, every file the library opened is closed, later API use is as strict as before.",
        note="Trusted: the SimFile/Path.open/BytesIO stubs model a stream faithfully; faults arrive only at seam calls and as stored-byte changes (no bytecode-level asynchronous exceptions, no threads). Complete for the 52 fixtures in the thorough tier; generated and perturbed files are sampled.",
        technique="deterministic simulation with fault injection: I/O-seam fault enumeration by call index + seeded load histories",
        ref="DESIGN.md §5/C18",
    ),
}

CHECKS["C19"] = dict(
    level="fault_enumeration",
    text="The user callable is a simulator-owned object with a per-cell fault plan. For every swept shape, both setters, attached and free patterns, a failure (Exception, BaseException, in-place mutation of the working copy followed by a raise) is injected at EVERY cell index / yield index, plus before-first / after-last / subset / duplicate-yield generator plans; seeded histories of 1-6 successive edits (each in a pristine forked process) on top. Oracle: a harness-maintained cell model (contents, raw_data, dimensions) and ownership of every note (note.pattern identity, note.project, note.mod resolution).",
    note="Trusted: the cell model (a 2-D array of 5-tuples); callables fail only by raising at a cell boundary; shapes above 128 cells sample the crash index (first, second, third, 1/3, 1/2, last two).",
    technique="deterministic simulation with fault injection: crash-point enumeration of the caller-supplied callable + seeded edit histories against a cell model",
    ref="DESIGN.md §5/C19",
)

CHECKS["C01"] = dict(
    level="exploration",
    text="Seeded histories of public-API operations (all 42 module types, every catalogue slot: common fields over their documented width, controllers incl. unit-dependent ranges, options, MIDI bindings, type-specific payload, links in every operand form, patterns/clones/empty slots, cells, project fields, edits inside embedded MetaModule projects) cross 1-4 save -> restart -> load boundaries; at each restart the loaded project is compared path by path with the pre-save reference snapshot (module names through the 32-byte UTF-8 prefix rule) and the load must not raise. Each history runs in a pristine forked process and is replayable from its op list.",
    note="Sampled, not exhaustive. The oracle sees the allow-list snapshot of DESIGN Appendix A only. I/O faults cannot change the truth of this property; histories + restart + reference snapshot decide it. Domain restrictions of DESIGN §5/C01 apply.",
    technique="deterministic simulation: seeded edit histories crossing save/restart/load boundaries, compared with a reference snapshot",
    ref="DESIGN.md §5/C01",
)

PENDING = {k: "claimed in DESIGN.md; check not built yet at this commit, so not claimed here" for k in ['C05','C06','C07','C08','C12','C14','C17']}


def main():
    checks = []
    for pid in sorted(CHECKS):
        c = CHECKS[pid]
        checks.append(
            {
                "property_id": pid,
                "quick_cmd": "timeout 900 ./check %s quick" % pid,
                "thorough_cmd": "timeout 7200 ./check %s thorough" % pid,
                "evidence_file": "/verif/evidence/%s.json" % pid,
                "replay_cmd_template": "./check --replay {path}",
                "engine": "rvsim",
                "level_claimed": {"category": c["level"], "text": c["text"], "design_ref": c["ref"]},
                "level_note": c["note"],
                "technique": c["technique"],
            }
        )
    na = [{"property_id": k, "reason": v} for k, v in sorted(NA.items())]
    for k, v in sorted(PENDING.items()):
        na.append({"property_id": k, "reason": v})
    na.sort(key=lambda e: e["property_id"])
    m = {
        "version": 1,
        "setup_cmd": "cd /verif && chmod +x check && PYTHONDONTWRITEBYTECODE=1 /venv/bin/python -c \"import sys; sys.path.insert(0,'/repo/src/python'); import rv.api, attr, logutils, slugify, networkx; print('rv importable from /repo/src/python')\"",
        "hooks": {
            "guard": "RADIANT_VOICES_VERIF",
            "enable": "no source hooks: every seam is taken from the check process (stream arguments, pathlib.Path.open, the BytesIO names of rv.modules.metamodule / rv.modules.sampler, caller-supplied callables, the public rv.errors flag). Checks import rv from ${RV_SRC:-/repo/src/python}.",
            "baseline_off_cmd": "cd /repo && /venv/bin/python -m pytest -ra -q -p no:cacheprovider --timeout=900 --continue-on-collection-errors",
            "source_commits": [],
            "add_only": True,
        },
        "engines": [
            {
                "name": "rvsim",
                "path": "/verif/rvsim",
                "serves_properties": sorted(CHECKS),
                "kind_free_text": "single-process deterministic simulator for a synchronous library: owns the reader/writer streams (SimDisk/SimFile with per-call-index fault plans), Path.open, nested BytesIO streams, user callables and the order of operations; seeded op+fault histories against reference models; every history runs in a pristine forked process; replay = the recorded op list, minimised by delta debugging",
            }
        ],
        "checks": checks,
        "not_applicable": na,
        "notes": "Technique family: deterministic simulation with fault injection. See DESIGN.md. ./check selftest proves determinism (same seed twice, fresh interpreter, other PYTHONHASHSEED); ./check sensitivity runs hand-made mutants; seeded/ holds independently written breaking changes and which check catches them.",
    }
    with open(os.path.join(ROOT, "MANIFEST.json"), "w") as f:
        json.dump(m, f, indent=1)
    try:
        import jsonschema
        jsonschema.validate(m, json.load(open("/root/.vp/MANIFEST.schema.json")))
        print("MANIFEST.json valid")
    except ImportError:
        print("jsonschema not available here; not validated")


if __name__ == "__main__":
    main()
