#!/venv/bin/python
"""Regenerates MANIFEST.json from the table below (kept as code so that it is always valid)."""
import json, os, sys

ROOT = os.path.dirname(os.path.abspath(__file__))

NA = {
    "C02": "pure function of one module value (quantifier: inputs x configurations): no schedule, fault, crash point or persisted history for a simulator to own; deciding it is property-based round-trip testing. Its in-project half is exercised (not asserted under this id) by C01's workload.",
    "C03": "conformance of written bytes to the documented format needs an independent decoder as oracle (differential / translation validation); nothing about one object's bytes varies with a fault or an order of events.",
    "C04": "decoding of an immutable byte string is a pure function of its input; the principal clause needs an independent reference encoder as oracle (differential testing), not a simulator.",
    "C09": "descriptor semantics per (type, controller, value) and a table comparison against the YAML spec: pure per-input relation. The one stateful clause (a load must not leave later assignments lenient) is decided under C18.",
    "C10": "the statement itself asks for complete enumeration of a finite pure map (about 5 million pairs); complete enumeration is model checking of a function, not seeded search over schedules and faults.",
    "C11": "pure bit packing over a finite domain that the statement says is enumerated completely; no interleaving, fault or history dimension.",
    "C13": "static comparison of import-time class metadata with a YAML file; there is no execution to simulate.",
    "C15": "pure save/load round trip over configurations (depth, count, mapping, label). MetaModules with embedded projects are part of the object population of C01/C06/C17 but are not asserted under this id.",
    "C16": "pure save/load round trip over Sampler inputs; no fault or schedule dimension. Samplers are part of the population of C01/C06/C17.",
    "C20": "convert_value is pure arithmetic over five parameters; containment and monotonicity are decided by sweeping the value axis (enumeration), the macro helper is a single call.",
}

CHECKS = {
    "C18": dict(
        level="fault_enumeration",
        text="Every load exit path reachable by one fault at a seam is enumerated for every fixture: a fault at each read/seek/tell call index of the top-level and of every nested stream, truncation at every chunk boundary and (dense) byte offset, open/close faults, both initial flag values, all three access modes; seeded multi-load histories (each in a pristine forked process) and byte flips on top. The oracle is exactly the statement: flag identical before/after, every file the library opened is closed, later API use is as strict as before.",
        note="Trusted: the SimFile/Path.open/BytesIO stubs model a stream faithfully; faults arrive only at seam calls and as stored-byte changes (no bytecode-level asynchronous exceptions, no threads). Complete for the 52 fixtures in the thorough tier; generated and perturbed files are sampled.",
        technique="deterministic simulation with fault injection: I/O-seam fault enumeration by call index + seeded load histories",
        ref="DESIGN.md §5/C18",
    ),
}

CHECKS["C19"] = dict(
    level="fault_enumeration",
    text="The user callable is a simulator-owned object with a per-cell fault plan. For every swept shape, both setters, attached and free patterns, a failure (Exception, BaseException, in-place mutation of the working copy followed by a raise) is injected at EVERY cell index / yield index, plus before-first / after-last / subset / duplicate-yield generator plans; seeded histories of 1-6 successive edits (each in a pristine forked process) on top. Oracle: a harness-maintained cell model (contents, raw_data, dimensions) and ownership of every note (note.pattern identity, note.project, note.mod resolution).",
    note="Trusted: the cell model (a 2-D array of 5-tuples); callables fail only by raising at a cell boundary; shapes above 128 cells sample the crash index (first, second, third, 1/3, 1/2, last two).",
    technique="deterministic simulation with fault injection: crash-point enumeration of the caller-supplied callable + seeded edit histories against a cell model",
    ref="DESIGN.md §5/C19",
)

CHECKS["C01"] = dict(
    level="exploration",
    text="Seeded histories of public-API operations (all 42 module types, every catalogue slot: common fields over their documented width, controllers incl. unit-dependent ranges, options, MIDI bindings, type-specific payload, links in every operand form, patterns/clones/empty slots, cells, project fields, edits inside embedded MetaModule projects) cross 1-4 save -> restart -> load boundaries; at each restart the loaded project is compared path by path with the pre-save reference snapshot (module names through the 32-byte UTF-8 prefix rule) and the load must not raise. Each history runs in a pristine forked process and is replayable from its op list.",
    note="Sampled, not exhaustive. The oracle sees the allow-list snapshot of DESIGN Appendix A only. I/O faults cannot change the truth of this property; histories + restart + reference snapshot decide it. Domain restrictions of DESIGN §5/C01 apply.",
    technique="deterministic simulation: seeded edit histories crossing save/restart/load boundaries, compared with a reference snapshot",
    ref="DESIGN.md §5/C01",
)

CHECKS["C05"] = dict(
    level="exploration",
    text="Every fixture, seeded library-generated projects, live API-built objects, and seeded perturbations of their value-bearing payloads (CVAL to arbitrary int32, option/other CHDT bytes, SLNK/SLnK entries, PDTA bytes, CMID and ~30 header fields) go through n>=1 load/save cycles compared byte for byte; every save is bracketed by snapshot equality (purity) and a second save; a write fault (EIO, ENOSPC, cancellation, short write) is injected at every write-call index of every unperturbed file (sweep) and at seeded indices elsewhere, after which the object must be unchanged and the next clean save identical; two objects' suspended chunks() writers are advanced alternately under seeded and strictly alternating schedules and must produce the bytes of an uninterrupted save.",
    note="Sampled over perturbations; complete over write-call indices for unperturbed files (every 7th call for files with more than 400 write calls in the quick tier). One open known finding (F8: colliding SLnK slot claims) is reported as KNOWN-FINDING. Perturbed files the library refuses to load are outside the domain and are counted in coverage.skipped.",
    technique="deterministic simulation with fault injection: load/save cycle histories over stored-value corruption, write-fault injection by call index, seeded interleaving of suspended writers",
    ref="DESIGN.md §5/C05",
)
CHECKS["C07"] = dict(
    level="exploration",
    text="Seeded histories of 1-25 connect/disconnect requests over two projects in every operand form the API accepts (method call, >>, <<, ModuleList chains, ~, lists, repeated members, self pairs, output, operands owned by the other project), plus all sequences of up to 2 (quick) / 3 (thorough) single-pair requests over a 3-module project; after every request the edge multiset derived from the link tables is compared with an edge-set reference model and the four tables are checked entry by entry for mutual consistency; cross-project requests must be refused and leave both projects' tables untouched.",
    note="Sampled beyond the small-scope enumeration. Request semantics (from x to pairs; ~ on either side = disconnect) come from the docstrings; slot positions are not prescribed. For a list request containing a foreign member, already processed local pairs may or may not have been applied.",
    technique="deterministic simulation: seeded operation histories over two parties against an edge-set reference model",
    ref="DESIGN.md §5/C07",
)
CHECKS["C08"] = dict(
    level="exploration",
    text="C07's histories on one project with 1-4 save -> restart -> load boundaries (the actor keeps linking on the loaded project): the four link tables of every module (trailing freed slots stripped), the edge set, and mutual consistency of the loaded tables are compared at each restart; in slot-less mode every SLnK chunk is removed from the saved bytes before loading (graph, in-link order and consistency demanded, not slot numbers). Reach probes confirm freed slots in the middle and partial SLnK presence are hit thousands of times per run.",
    note="Sampled. Slot-less files are those where no module carries SLnK; arbitrary partial removal is not generated (ambiguous files no writer produces) - partial presence is explored as the library's own writer produces it.",
    technique="deterministic simulation: seeded link histories crossing save/restart/load, incl. foreign slot-less files",
    ref="DESIGN.md §5/C08",
)
CHECKS["C12"] = dict(
    level="exploration",
    text="Seeded histories of sub-field writes (note controller/effect/XX/YY; the six visualization parts; MIDI-in always/channel; project sync flags), whole-word writes, primary note fields over their domains, whole-pattern byte images of valid cells, and save -> restart -> load; after every write every sub-field of the touched word, Note.raw_data (documented 8-byte packing) and Pattern.raw_data (row-major join) are compared with an integer field model; a re-save after restart must be byte-identical.",
    note="Histories are sampled. The note sub-field triples are enumerated completely only in the thorough tier (quick: every old value of the written byte with three sibling bytes); visualization / MIDI-in / sync words are enumerated over their defined members. Field layout taken from docs/sunvox-file-format.rst.",
    technique="deterministic simulation: seeded overwrite histories of packed words against a field model, across restart",
    ref="DESIGN.md §5/C12",
)
CHECKS["C14"] = dict(
    level="exploration",
    text="Seeded histories over 2-3 projects and a pool of free modules/patterns: attach_module, new_module, += (modules, patterns, lists), attaching twice, attaching an object owned by another project (must raise the ownership error and leave the ownership snapshot of every project identical), attach_pattern (pattern/clone/None), note.mod get/set at modules, gaps, zero and beyond the end, and save -> restart -> load including files whose unlinked module sections were blanked to SEND (loaded projects with arbitrary gap patterns); after every op index==position, parent, output-at-0 and the slot model (lowest empty position, else append; nothing else moves) are checked on every project.",
    note="Sampled. Re-attaching a pattern to its own project and note.mod with a foreign project's module are not generated (statement silent).",
    technique="deterministic simulation: seeded multi-party ownership histories against a slot/owner reference model, with restart",
    ref="DESIGN.md §5/C14",
)

CHECKS["C06"] = dict(
    level="exploration",
    text="Started from every fixture and from seeded library-generated projects: load, apply 1-4 catalogue edits to the LOADED object (project fields, common module fields, any controller, any option, MIDI bindings, type-specific payload incl. Sampler envelopes/samples/maps/effect and embedded MetaModule projects, links, pattern fields, cells), save, restart, load; 2-4 such cycles per history so that edits land on objects that came from an edited save and the same slot element is overwritten again in a later cycle. Differential oracle: paths unchanged live must be unchanged across the reload, paths changed live must show the new value.",
    note="Sampled. The differential oracle deliberately ignores round-trip imperfections unrelated to the edit (those are C01/C05). Observable state is the allow-list snapshot.",
    technique="deterministic simulation: seeded edit histories on loaded objects across repeated save/restart/load, differential snapshot oracle",
    ref="DESIGN.md §5/C06",
)
CHECKS["C17"] = dict(
    level="exploration",
    text="2-4 actors each obtain an object independently (any of the 43 module types, project, pattern, synth; clone of another actor's object; load of another actor's saved bytes or of a shared fixture); a seeded scheduler interleaves mutations through every catalogue slot (incl. in-place element writes into curves, waveforms, envelopes, mappings, note maps, labels, embedded projects), saves, single steps of suspended chunks() writers, drops and fresh constructions. After every step the snapshot digest and saved-bytes digest of every other actor's object must be unchanged; fresh constructions must equal the pristine reference taken at world start (every history runs in a pristine forked process, so class-level contamination cannot hide); a suspended writer must produce the bytes of an uninterrupted save. A sweep pairs every module type with itself (new / clone / load) through 90 slot mutations.",
    note="Sampled interleavings. Objects of different actors are never linked to each other; one object graph (project + modules, MetaModule + embedded project) belongs to one actor. The global strictness flag is shared by design (C18).",
    technique="deterministic simulation: seeded interleaving of several actors' operations and suspended writers, non-interference oracle, pristine forked process per history",
    ref="DESIGN.md §5/C17",
)

CHECKS["C18"]["text"] = "Every load exit path reachable by one fault at a seam is enumerated for the fixtures: a fault (EIO, cancellation as BaseException, MemoryError, short read) at each read call index and (ESPIPE, cancellation) at each seek/tell index of the top-level and of every nested stream (embedded project, sampler effect), truncation at every chunk boundary and dense byte offsets, open/close faults, a non-seekable stream, both initial flag values, file-object / str / Path access, loads that happen inside Container.clone() and Module.clone(), and the same sweeps under other configurations (strict-on-read knob, DEBUG log level, the load wrapped in the library's public override context manager entered from the opposite setting); seeded multi-load histories (each in a pristine forked process, up to two faults per load) and stored-byte flips on top. The oracle is exactly the statement: flag identical before/after, every file the library opened (pathlib or builtin open) has been closed, later API use is as strict as before."
CHECKS["C19"]["text"] = "The user callable is a simulator-owned object with a per-cell fault plan. For every swept shape, both setters, attached and free patterns: a failure at EVERY cell index / yield index for an Exception, a BaseException and in-place mutation of the working copy followed by a raise; 19 exception types (incl. StopIteration, GeneratorExit, SystemExit, MemoryError) at the first, middle and last cell; before-first / after-last / subset / duplicate-yield generator plans; five note-construction styles incl. handing back Note objects that already live in the pattern (rotation) followed by failing and partial edits; seeded histories of 1-6 successive edits (each in a pristine forked process) on top. Oracle: a harness-maintained cell model (contents, raw_data, dimensions; what the callable observed mid-edit) and ownership of every note (note.pattern identity, note.project, note.mod resolution)."
CHECKS["C05"]["text"] = "Every fixture, seeded library-generated projects (incl. configured MetaModules, twins, hubs, payloads of tens of KiB), live API-built objects (projects, one Synth per module type, nested MetaModule graphs incl. the embedded project saved on its own), legacy / older-revision Sampler records, and seeded perturbations of value-bearing payloads (CVAL to arbitrary int32, option/other CHDT bytes, SLNK/SLnK entries, PDTA bytes, CMID and ~30 header fields, also inside embedded containers) go through n>=1 load/save cycles compared byte for byte; every save is bracketed by snapshot equality (purity) and a second save; a write fault (EIO, ENOSPC, cancellation, short write) is injected at every write-call index of unperturbed files and nested built graphs (sweep) and at seeded indices elsewhere; saves are also started and abandoned at every chunk position; after either the object must be unchanged and the next clean save identical; two objects' suspended chunks() writers are advanced alternately under seeded and strictly alternating schedules and must produce the bytes of an uninterrupted save; an out-of-range value of a ranged controller must never make a loadable file unloadable."
CHECKS["C17"]["text"] = "2-4 actors each obtain an object independently (any of the 43 module types, project, pattern, synth; clone of another actor's object; load of another actor's saved bytes, of a shared fixture or of a big generated file; a loaded project containing twin modules with identical payload); a seeded scheduler interleaves mutations through every catalogue slot (incl. in-place element writes and whole-list assignment of curves, waveforms, envelopes, mappings, note maps, labels, embedded projects), saves, single steps of suspended chunks() writers, loads that FAIL under an injected I/O fault, drops and fresh constructions. After every step the snapshot digest and saved-bytes digest of every other actor's object must be unchanged, a module-local edit must leave every sibling module of the same project unchanged, fresh constructions and later clean loads must equal the pristine references taken at world start (every history runs in a pristine forked process), and a suspended writer must produce the bytes of an uninterrupted save. Sweeps: every module type against itself (new / clone / load) through 90 slot mutations; a failing load at a spread of read indices of every fixture followed by clean loads."
CHECKS["C07"]["text"] = "Seeded histories of connect/disconnect requests over two projects in every operand form the API accepts (method call, >>, <<, ModuleList chains, ~, lists, repeated members, self pairs, output, operands owned by the other project), incl. hub histories (one source toggling links to up to 24 destinations 20-90 times) and projects that are saved, get unlinked module sections blanked, are reloaded and keep attaching into the gaps; plus all sequences of up to 2 (quick) / 3 (thorough) single-pair requests over a 3-module project. After every request the edge multiset derived from the link tables is compared with an edge-set reference model and the four tables are checked entry by entry for mutual consistency; cross-project requests must be refused and leave both projects' tables untouched."
CHECKS["C08"]["text"] = "C07's histories on one project (plus a foreign party whose operands must be refused, so that list requests are partially applied) with intermediate saves and 1-4 save -> restart -> load boundaries (the actor keeps linking on the loaded project), incl. hub histories with up to 700 toggles (out-slot numbers beyond 16 and 255): the four link tables of every module (trailing freed slots stripped), the edge set, and mutual consistency of the loaded tables are compared at each restart; in slot-less mode every SLnK chunk is removed from the saved bytes before loading (graph, in-link order and consistency demanded, not slot numbers)."
CHECKS["C12"]["text"] = "Seeded histories of sub-field writes (note controller/effect/XX/YY; the six visualization parts; MIDI-in always/channel; project sync flags), whole-word writes, primary note fields over their domains, whole-pattern byte images of valid cells (recurring within a run), grid-structure edits through the public list (replace a cell by a new Note, swap or reverse lines), writes through Note references taken once and held, worlds started from fixture projects (incl. an old-version file) and save -> restart -> load; after every write every sub-field of the touched word, Note.raw_data (documented 8-byte packing) and Pattern.raw_data (row-major join, checked before anything touches pattern.data again) are compared with an integer field model. Sweeps: every (old byte x 3 sibling bytes x new byte) triple of the four note sub-fields in the quick tier and every (16-bit old word, new byte) triple in the thorough tier; all small packed words."
CHECKS["C14"]["text"] = "Seeded histories over 2-3 projects (fresh, or loaded from fixtures incl. one with a gap and one stamped with an old version) and a pool of free modules/patterns: attach_module, new_module, += (modules, patterns, lists incl. repeated members), attaching twice, attaching an object owned by another project (must raise the ownership error and leave the ownership snapshot of every project identical), attach_pattern (pattern/clone/None), note.mod get/set over the whole 16-bit module-number width (modules, gaps, zero, beyond the end), a project being adopted as the embedded project of a MetaModule with mappings, projects grown past 256 positions, and save -> restart -> load including files whose unlinked module sections were blanked to SEND; after every op index==position, parent, output-at-0 and the slot model (lowest empty position, else append; nothing else moves) are checked on every project."

# rounds 5 and 6 (DESIGN §14): mechanisms shared by the history worlds
_NOISE = " Interleaved in 20% of the histories: unrelated background loads in the same process (fixtures, generated and damaged files, other writer versions), most of them cut short by a read/seek fault, a truncation (also exactly at chunk boundaries) or a byte flip, their result thrown away."
_BAD = " Also interleaved: operations that do not run to completion - refused or raising calls (out-of-range / wrong-typed controller values, foreign modules offered to attach/connect, raising user callables and generators, refused constructor keywords), saves cut short by a write fault or abandoned after k chunks (also swept over every write index / chunk in descending order), exports of an attached module as a Synth that are cut short, saves refused by the packer because of an unencodable value that is then put back; nothing is asserted about those operations themselves, only that the ordinary operations which follow still satisfy the oracle."
for _p in ("C01", "C05", "C06", "C07", "C08", "C12", "C14", "C17", "C19"):
    CHECKS[_p]["text"] += _NOISE
for _p in ("C01", "C06", "C07", "C08", "C17"):
    CHECKS[_p]["text"] += _BAD
CHECKS["C01"]["text"] += " 30% of the restarts load the saved bytes twice: the first copy is scribbled over in place (every reachable primitive leaf changed, no container replaced) and dropped, the second load is the one that is judged."
CHECKS["C05"]["text"] += " refused_save: an attribute briefly holds a value that does not fit its binary slot, the save is refused by the packer, the value is put back, and the next two saves must equal the last good one."
CHECKS["C06"]["text"] += " 15% of the histories write the hash-colliding twin values -1 / -2 alternately to one signed scalar; 20% of the cycles start with save attempts of the loaded object that are cut short at every write index or abandoned after every chunk."
CHECKS["C08"]["text"] += " 14% of the histories build their graphs inside the project embedded in a MetaModule (and around it in the host); every oracle is applied recursively to embedded projects."
CHECKS["C12"]["text"] += " Pattern images that are refused (cut short), sparse images and clear() without looking at the grid afterwards are part of the alphabet."
CHECKS["C14"]["text"] += " Restart files may have the exists bit of stored module flags cleared (position 0 must still hold the output module); stale module handles of a project object that was let go at a restart stay owned (the simulator runs the garbage collector at that point) and must be refused elsewhere; attached modules are exported as a Synth (complete / write fault / abandoned writer) without any change of ownership."
CHECKS["C17"]["text"] += " scribble: an actor writes all over its own object graph in place and drops it (aliasing detector for interned parse results, records handed over by reference, reused buffers); borrow_fail: a failing bulk edit that was handed a live note of another actor's pattern; big-sample Samplers with boundary-biased sizes."

PENDING = {}


def main():
    checks = []
    for pid in sorted(CHECKS):
        c = CHECKS[pid]
        checks.append(
            {
                "property_id": pid,
                "quick_cmd": "timeout 900 ./check %s quick" % pid,
                "thorough_cmd": "timeout 7200 ./check %s thorough" % pid,
                "evidence_file": "/verif/evidence/%s.json" % pid,
                "replay_cmd_template": "./check --replay {path}",
                "engine": "rvsim",
                "level_claimed": {"category": c["level"], "text": c["text"], "design_ref": c["ref"]},
                "level_note": c["note"],
                "technique": c["technique"],
            }
        )
    na = [{"property_id": k, "reason": v} for k, v in sorted(NA.items())]
    for k, v in sorted(PENDING.items()):
        na.append({"property_id": k, "reason": v})
    na.sort(key=lambda e: e["property_id"])
    m = {
        "version": 1,
        "setup_cmd": "cd /verif && chmod +x check && PYTHONDONTWRITEBYTECODE=1 /venv/bin/python -c \"import sys; sys.path.insert(0,'/repo/src/python'); import rv.api, attr, logutils, slugify, networkx; print('rv importable from /repo/src/python')\"",
        "hooks": {
            "guard": "RADIANT_VOICES_VERIF",
            "enable": "no source hooks: every seam is taken from the check process (stream arguments, pathlib.Path.open, the BytesIO names of rv.modules.metamodule / rv.modules.sampler, caller-supplied callables, the public rv.errors flag). Checks import rv from ${RV_SRC:-/repo/src/python}.",
            "baseline_off_cmd": "cd /repo && /venv/bin/python -m pytest -ra -q -p no:cacheprovider --timeout=900 --continue-on-collection-errors",
            "source_commits": [],
            "add_only": True,
        },
        "engines": [
            {
                "name": "rvsim",
                "path": "/verif/rvsim",
                "serves_properties": sorted(CHECKS),
                "kind_free_text": "single-process deterministic simulator for a synchronous library: owns the reader/writer streams (SimDisk/SimFile with per-call-index fault plans), Path.open, nested BytesIO streams, user callables and the order of operations; seeded op+fault histories against reference models; every history runs in a pristine forked process; replay = the recorded op list, minimised by delta debugging",
            }
        ],
        "checks": checks,
        "not_applicable": na,
        "notes": "Technique family: deterministic simulation with fault injection. See DESIGN.md. ./check selftest proves determinism (same seed twice, fresh interpreter, other PYTHONHASHSEED); ./check sensitivity runs hand-made mutants; seeded/ holds independently written breaking changes and which check catches them.",
    }
    with open(os.path.join(ROOT, "MANIFEST.json"), "w") as f:
        json.dump(m, f, indent=1)
    try:
        import jsonschema
        jsonschema.validate(m, json.load(open("/root/.vp/MANIFEST.schema.json")))
        print("MANIFEST.json valid")
    except ImportError:
        print("jsonschema not available here; not validated")


if __name__ == "__main__":
    main()
